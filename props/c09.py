"""C09 — a sub-graph behaves the same inlined or nested, at any depth."""
from __future__ import annotations

import copy

from hypothesis import strategies as st

from hgv import gen
from hgv.runner import Result, Viol
from hgv.schedmodel import Walk
from hgv.trace import Trace
from hgv.worker import HarnessError

ID = "C09"
RULE = ("A generated sub-program S (1-4 nodes: stateless / stateful compute, self-scheduling timers with tagged and cancelled requests, an "
        "internal source whose script is relative to the start, a pass-through result, a captured outer port) is applied to outer sources "
        "once inlined and once as a nested child graph at depth 1, 2 and 3-4; outer inputs tick on consecutive steps, with gaps, or not at "
        "all so that the sub-graph is driven only by its own schedule. Recorder streams on the result must be identical (times and values); "
        "in nested variants every child cycle is checked against the pending-request model (no lost wake-up, never before the parent). "
        "Non-trivial = S has a node that wakes itself in a cycle where no outer input ticks, and the nesting depth is >= 2. Distinct = "
        "canonical JSON of the case.")
ASSUMPTIONS = ["nodes inside S keep the default validity requirement (all inputs valid) - see known finding F10 for nodes that waive it"]


def examples(tier):
    return 2500 if tier == "quick" else 40000


def budget_s(tier):
    return 75 if tier == "quick" else 600


@st.composite
def case(draw, tier):
    big = tier == "thorough"
    start = draw(st.sampled_from([0, 0, 4, 600000]))
    horizon = draw(st.integers(4, 40 if big else 18))
    end = start + horizon
    outer = []
    n_src = draw(st.integers(1, 2))
    for i in range(n_src):
        # sparse outer histories leave the sub-graph to its own schedule (the parent is idle when its timers fire)
        sparse = draw(st.integers(0, 2)) == 0
        outer.append({"id": f"s{i}", "op": "src", "schema": "TS[int]", "script": draw(gen.int_script(start, end - 1, max_size=2 if sparse else 8 if big else 5))})
    npar = draw(st.integers(1, 2))
    body, bports = [], [{"arg": j} for j in range(npar)]
    waive = draw(st.integers(0, 5)) == 0   # some bodies contain a node that runs with invalid inputs (valid=[])
    if draw(st.integers(0, 1)) == 0:
        body.append({"id": "is", "op": "src", "schema": "TS[int]", "rel": True, "script": draw(gen.int_script(0, horizon, max_size=4))})
        bports.append("is")
    if draw(st.integers(0, 3)) == 0:
        bports.append({"outer": f"s{draw(st.integers(0, n_src - 1))}"})
    for j in range(draw(st.integers(1, 4))):
        nin = draw(st.integers(1, min(2, len(bports))))
        ins = [draw(st.sampled_from(bports)) for _ in range(nin)]
        if nin == 2 and draw(st.integers(0, 3)) == 0:
            # one input read passively (it must not be the only active one)
            k = draw(st.integers(0, 1))
            r = ins[k]
            ins[k] = dict(r, passive=True) if isinstance(r, dict) else {"r": r, "passive": True}
        node = {"id": f"b{j}", "op": "node", "ins": ins, "out": "TS[int]", "fn": draw(st.sampled_from(["sum", "acc", "count"])),
                "coef": [draw(st.integers(1, 3)) for _ in ins], "bias": draw(st.integers(0, 4)), "log_inputs": False}
        if draw(st.integers(0, 2)) != 0:
            node["sched"] = gen.rebase_sched(draw(gen.sched_script(horizon, 0, max_ops=2)), start)
            node["tags"] = gen.TAGS
            if draw(st.integers(0, 4)) == 0:
                node["schedule_on_start"] = True
        if waive and j == 0:
            node["valid"] = []
        body.append(node)
        bports.append(f"b{j}")
    passthrough = draw(st.integers(0, 7)) == 0
    ret = {"arg": 0} if passthrough else f"b{len([b for b in body if b['id'].startswith('b')]) - 1}"
    # the result may also be a captured outer port passed on unchanged (one that an inner node consumes as well - the
    # engine cannot nest a sub-graph that returns a capture nobody inside reads)
    used_outer = [r for b in body for r in b.get("ins", []) if isinstance(r, dict) and "outer" in r and not r.get("passive")]
    if used_outer and draw(st.integers(0, 2)) == 0:
        ret = {"outer": used_outer[0]["outer"]}
        passthrough = True
    sub = {"params": ["TS[int]"] * npar, "out": "TS[int]", "stmts": body, "ret": ret}
    ins = [f"s{draw(st.integers(0, n_src - 1))}" for _ in range(npar)]
    depths = [0, 1, draw(st.sampled_from([2, 2, 3, 4 if big else 3]))]
    # the nested NODE may read one of its two arguments passively: inner nodes that subscribe to it actively are then woken
    # out of band (the "push" half of nested scheduling) instead of through an evaluation of the nested node
    passive_arg = draw(st.integers(0, 1)) if npar == 2 and draw(st.integers(0, 2)) == 0 else None
    # where the application lives: in the root graph, or inside a dynamically created child that STARTS MID-RUN while the
    # inputs it reads may already hold values - a switch_ branch (re-instantiated on every key change) or a map_ child
    host = None
    # (a sub-graph that hands an argument straight through is left to the root: what a switch_ / map_ output does when the new
    # child's result is an already valid outer port is C12 / C13 matter)
    if not any(isinstance(r, dict) and "outer" in r for b in body for r in b.get("ins", [])) and not isinstance(ret, dict):
        host = draw(st.sampled_from([None, None, None, "switch", "map"]))
    tick_dependent = False
    if host:
        # F28: in the cycle a dynamic child starts, its held inputs read modified=true for inlined nodes (sampled bind) and
        # modified=false for nodes inside a nested graph node (consumers are scheduled, no modified state is fabricated).
        # Sub-graphs whose behaviour depends on modified() are therefore kept to one hosted case in eight.
        tick_dependent = draw(st.integers(0, 7)) == 0
        for b in body:
            if not tick_dependent and "tick" in (b.get("sched") or {}):
                b["sched"]["every"] = b["sched"].get("every", []) + b["sched"].pop("tick")
        tick_dependent = tick_dependent and any("tick" in (b.get("sched") or {}) for b in body)
    host_times = sorted(draw(st.sets(st.integers(start, end - 1), min_size=1, max_size=3))) if host else []
    if host:
        passive_arg = None
    # F33: the application's own argument tagged passive(...) - honoured by the inlined form, ignored by the nested one
    passive_tagged = draw(st.integers(0, 1)) if (npar == 2 and not host and passive_arg is None and not passthrough and draw(st.integers(0, 7)) == 0) else None
    if passive_tagged is not None:
        # engine precondition: the tag may not leave an inner node without any active input
        tagged = {"arg": passive_tagged}
        for b in body:
            ins_ = b.get("ins", [])
            if tagged in ins_ and not any(r != tagged and not (isinstance(r, dict) and r.get("passive")) for r in ins_):
                passive_tagged = None
                break
    return {"passive_tagged": passive_tagged, "host": host, "host_times": host_times, "tick_dependent": tick_dependent, "start": start, "end": end, "outer": outer, "sub": sub, "ins": ins, "depths": depths, "waive": waive, "passive_arg": passive_arg}


def strategy(tier):
    return case(tier)


def build(case, depth):
    subs = {"S": copy.deepcopy(case["sub"])}
    top = "S"
    npar = len(case["sub"]["params"])
    for d in range(2, depth + 1):
        wn = f"W{d}"
        subs[wn] = {"params": case["sub"]["params"], "out": "TS[int]",
                    "stmts": [{"id": "inner", "op": "nested", "sub": top, "ins": [{"arg": j} for j in range(npar)]}], "ret": "inner"}
        top = wn
    if depth >= 2:
        # captured outer ports must be re-captured at every level: route them through the wrappers' own `outer` refs
        pass
    stmts = list(copy.deepcopy(case["outer"]))
    if case.get("host"):
        # H(a...) = the application (inlined or nested); H itself is the body of a switch_ branch / a map_ child
        subs["H"] = {"params": case["sub"]["params"], "names": [f"a{j}" for j in range(npar)], "out": "TS[int]", "ret": "app",
                     "stmts": [{"id": "app", "op": "inline" if depth == 0 else "nested", "sub": top, "ins": [{"arg": j} for j in range(npar)]}]}
        if case["host"] == "switch":
            stmts.append({"id": "hk", "op": "src", "schema": "TS[int]", "script": [[t, [{"k": "set", "v": i % 2}]] for i, t in enumerate(case["host_times"])]})
            stmts.append({"id": "app", "op": "op", "name": "switch_", "has_out": True,
                          "args": [{"ts": "hk"}, {"cases": [[0, "H"], [1, "H"]], "key_t": "int"}] + [{"ts": r} for r in case["ins"]]})
        else:
            subs["HM"] = {"params": ["TS[int]"] + case["sub"]["params"], "names": ["x"] + [f"a{j}" for j in range(npar)], "out": "TS[int]", "ret": "h",
                          "stmts": [{"id": "h", "op": "inline", "sub": "H", "ins": [{"arg": j + 1} for j in range(npar)]}]}
            ks = [[t, [{"k": "D", "ops": [["set", i % 2, i]] + ([["erase", (i + 1) % 2]] if i else [])}]] for i, t in enumerate(case["host_times"])]
            stmts.append({"id": "hk", "op": "src", "schema": "TSD[int,TS[int]]", "script": ks})
            stmts.append({"id": "app", "op": "op", "name": "map_", "has_out": True, "args": [{"fn": "HM"}, {"ts": "hk"}] + [{"ts": r} for r in case["ins"]]})
        stmts.append({"id": "rec", "op": "node", "ins": ["app"], "valid": []})
        return {"start": case["start"], "end": case["end"], "stmts": stmts, "subs": subs}
    app = {"id": "app", "op": "inline" if depth == 0 else "nested", "sub": top, "ins": list(case["ins"])}
    if case.get("passive_tagged") is not None:
        k_ = case["passive_tagged"]
        app["ins"][k_] = {"r": app["ins"][k_], "passive": True}
    if depth >= 1 and case.get("passive_arg") is not None:
        app["active"] = [1 - case["passive_arg"]]      # the nested node listens to the other argument only
    stmts.append(app)
    stmts.append({"id": "rec", "op": "node", "ins": ["app"]})
    return {"start": case["start"], "end": case["end"], "stmts": stmts, "subs": subs}


def uses_outer(case):
    return any(isinstance(r, dict) and "outer" in r for s in case["sub"]["stmts"] for r in s.get("ins", []))


def check(case, ctx) -> Result:
    res = Result()
    streams = {}
    facts = {}
    depths = [d for d in case["depths"] if not (uses_outer(case) and d >= 2)]
    for depth in depths:
        prog = build(case, depth)
        resp = ctx.run(prog)
        if resp.get("crash"):
            res.violations.append(Viol("engine_crash", f"depth {depth}: worker died {resp.get('signal')} {resp.get('stderr', '')[-400:]}"))
            return res
        if not resp.get("built"):
            err = resp.get("error") or {}
            if str(err.get("what", "")).startswith("harness:"):
                raise HarnessError(err["what"])
            res.violations.append(Viol("variant_rejected", f"depth {depth}: {err}", {"depth": min(depth, 2)}))
            return res
        if resp.get("error"):
            res.violations.append(Viol("run_failed", f"depth {depth}: {resp['error']}", {"depth": min(depth, 2)}))
            return res
        tr = Trace(resp["trace"])
        streams[depth] = [(t, val) for (t, val, cd) in tr.stream("rec", 0, "r")]
        if case.get("host") == "map":
            # the sub-graph's output is the map ELEMENT: ticks of the map output that carry no valid element (the key set
            # changing) are map_'s own business (C10), not part of the sub-graph's stream
            streams[depth] = [(t, sorted(map(tuple, (cd or {}).get("modified") or []))) for (t, val, cd) in tr.stream("rec", 0, "r") if (cd or {}).get("modified")]
        elif case.get("host") == "switch":
            streams[depth] = [(t, val) for (t, val) in streams[depth] if val is not None]
        if depth >= 1 and not case.get("host"):
            w = Walk(prog, resp, check_queries=True).run()
            facts[depth] = w.facts
            for clause, msg, feats in w.viol:
                if clause in ("spurious_cycle",):
                    continue
                res.violations.append(Viol(clause, f"depth {depth}: {msg}", dict(feats, depth=min(depth, 2))))
                break
    base = streams[0]
    for depth in depths[1:]:
        if streams[depth] != base:
            a, b = base, streams[depth]
            k = next((i for i, (x, y) in enumerate(zip(a, b)) if x != y), min(len(a), len(b)))
            res.violations.append(Viol("inline_vs_nested_differ", f"inlined result stream {a[max(0, k - 1):k + 3]} (len {len(a)}) but nested at depth {depth} gives {b[max(0, k - 1):k + 3]} (len {len(b)}); first difference at tick #{k}",
                                       {"waives_validity": case["waive"], "first_diff_at_start": bool(k < len(b) and b[k][0] == case["start"] and (k >= len(a) or a[k][0] != case["start"])),
                                        **({"hosted_tick_dependent": True} if case.get("host") and case.get("tick_dependent") else {}),
                                        **({"passive_tagged_argument": True} if case.get("passive_tagged") is not None else {})}))
            break
    # non-trivial: a self-wake in a cycle without outer tick, depth >= 2
    outer_ticks = {t for s in case["outer"] for t, _ in s["script"]}
    selfwake = False
    deep = max(depths)
    f = facts.get(deep)
    if f and f["nested_requests"] >= 1:
        selfwake = any(t not in outer_ticks for t, _ in streams[deep])
    res.nontrivial = selfwake and deep >= 2
    if selfwake:
        res.labels.append("self_wake_idle_parent")
    if case.get("host"):
        res.labels.append("hosted_in_" + case["host"])
        held = any(t < case["host_times"][0] for s_ in case["outer"] for t, _ in s_["script"])
        if held:
            res.labels.append("host_started_with_held_input")
        res.nontrivial = res.nontrivial or (held and len(streams.get(0, [])) >= 2)
    if case.get("passive_tagged") is not None:
        res.labels.append("passive_tagged_argument")
    if case["waive"]:
        res.labels.append("waives_validity")
    if case.get("passive_arg") is not None:
        res.labels.append("nested_node_passive_on_one_argument")
    if uses_outer(case):
        res.labels.append("captured_outer_port")
    if case["sub"]["ret"] == {"arg": 0}:
        res.labels.append("pass_through")
    res.labels.append(f"max_depth_{deep}")
    res.summary = {"stream": base[:12], "depths": depths}
    return res
