"""C13 — reading through a reference equals reading its current target."""
from __future__ import annotations

from hypothesis import strategies as st

from hgv import gen
from hgv import tsmodel as tm
from hgv.runner import Result, Viol
from hgv.trace import Trace
from hgv.worker import HarnessError, Rejected
from props.c08 import _dict_script, _set_script

ID = "C13"
ASAN_THOROUGH = True   # thorough tier runs against the AddressSanitizer build
RULE = ("if_then_else(cond, a, b), if_cmp(cmp_(x, 0), a, b, g) with three targets, or switch_ whose branches pass a or b through - optionally passed on through a nested pass-through "
        "graph - over scripted targets of shape TS[int], TSS[int], TSD[int,TS[int]] or TSB[TS[int],TS[int]], read by 1-3 consumers below "
        "the reference plus a consumer of the reference itself. Condition and target histories give every "
        "relative timing: retarget to a target that last ticked earlier / in the same cycle / never, retarget back, re-publication of the "
        "same selection, ticks of the unselected target. A small model of 'current target' predicts, per cycle, whether each consumer "
        "must be evaluated, the value it reads, and for sets/dictionaries the delta (target's own delta on an ordinary tick; old-only "
        "removed / new-only added on a retarget). Non-trivial = a retarget to a target whose last tick was in an earlier cycle AND a later "
        "tick of the unselected target. Distinct = canonical JSON of the case.")
ASSUMPTIONS = ["the silent unbind when the reference goes empty and retargets to a never-valid target are not asserted either way",
               "the per-tick delta is read through the typed accessors / capture_delta (delta_value() on a sampled rebind is not asserted)",
               "targets change distinct elements/keys once per cycle (cancelling mutations are C05's subject)"]


def examples(tier):
    return 4000 if tier == "quick" else 60000


def budget_s(tier):
    return 80 if tier == "quick" else 600


@st.composite
def case(draw, tier):
    big = tier == "thorough"
    start = draw(st.sampled_from([0, 0, 3]))
    horizon = draw(st.integers(5, 36 if big else 16))
    end = start + horizon
    shape = draw(st.sampled_from(["TS[int]", "TS[int]", "TSS[int]", "TSS[int]", "TSD[int,TS[int]]", "TSB[f0:TS[int],f1:TS[int]]", "TSL[TS[int],2]"]))

    def target():
        if shape == "TS[int]":
            return draw(gen.int_script(start, end - 1, max_size=8 if big else 5))
        if shape == "TSS[int]":
            return _set_script(draw, start, end, 7 if big else 5)
        if shape.startswith("TSB") or shape.startswith("TSL"):
            out = []
            for t in draw(gen.time_set(start, end - 1, 1, 7 if big else 5)):
                fields = draw(st.lists(st.integers(0, 1), min_size=1, max_size=2, unique=True))
                out.append([t, [{"k": "i", "i": f, "op": {"k": "set", "v": draw(st.integers(0, 40))}} for f in fields]])
            return out
        return _dict_script(draw, start, end, 7 if big else 5)
    a, b = target(), target()
    ctimes = draw(gen.time_set(start, end - 1, 1, 9 if big else 6))
    # the reference is made by if_then_else (two targets, boolean condition) or by if_cmp (three targets, selected by the
    # three-way result of cmp_(x, 0) for a scripted x)
    via = draw(st.sampled_from(["ite", "ite", "cmp", "switch", "ite2", "if_"]))
    if via == "switch" and (shape.startswith("TSB") or shape.startswith("TSL")):
        via = "ite"     # a bundle forwarded out of a switch_ keeps the fields last forwarded by the previous branch: not asserted here
    c2 = []
    if via == "ite2":
        # a selection of a selection: if_then_else(c2, g, if_then_else(c, a, b)) - the inner reference can move while the
        # outer condition stays put
        c = [[t, [{"k": "set", "v": draw(st.booleans())}]] for t in ctimes]
        c2 = [[t, [{"k": "set", "v": draw(st.integers(0, 3)) == 0}]] for t in draw(gen.time_set(start, end - 1, 1, 4))]
        g = target()
    elif via == "switch":
        # switch_ whose branches pass one of the outer inputs through: the output follows a or b by reference
        c = [[t, [{"k": "set", "v": draw(st.integers(0, 1))}]] for t in ctimes]
        g = []
    elif via == "ite":
        c = [[t, [{"k": "set", "v": draw(st.booleans())}]] for t in ctimes]
        g = []
    elif via == "if_":
        # if_(c, a): a router that RE-PUBLISHES both of its reference fields on every tick of the condition (no
        # de-duplication of its own); the consumers read one of the two fields. Biased towards repeated values.
        side = draw(st.booleans())
        c = [[t, [{"k": "set", "v": side if draw(st.integers(0, 3)) else (not side)}]] for t in ctimes]
        g = []
    else:
        c = [[t, [{"k": "set", "v": draw(st.sampled_from([-1, 0, 1]))}]] for t in ctimes]
        g = target()
    # the candidate targets are separate outputs, or sibling children of ONE output (elements of a TSL / fields of a TSB)
    siblings = draw(st.sampled_from([None, None, "TSL", "TSB"]))
    out = {"start": start, "end": end, "shape": shape, "a": a, "b": b, "g": g, "via": via, "c": c, "c2": c2, "n_cons": draw(st.integers(1, 3)),
           "nested": draw(st.integers(0, 3)) == 0, "siblings": siblings}
    if via == "if_":
        out["side"] = side
    if via == "switch":
        # the branches hand the chosen input on through a nested graph node: the switch output is then in forwarding mode
        # (it forwards to the branch's terminal instead of owning a reference)
        # NOT GENERATED (DESIGN section 8): with a forwarding output the unchanged tree deviates from the statement in several ways
        # that could not be told apart soundly - first selection / retarget from an invalid endpoint not seen as a transition,
        # retarget onto a ticking target reporting the target's own delta, a tick of the deselected target reaching the consumer
        # after such a history. The code path below is kept for experiments (VERIF_C13_FWD=1).
        out["switch_fwd"] = bool(__import__("os").environ.get("VERIF_C13_FWD")) and draw(st.booleans())
        if out["switch_fwd"]:
            # F29 is excluded by construction (and kept as corpus inputs): both targets are written in the first cycle, and
            # the selection never changes in a cycle in which a target ticks
            for n in ("a", "b"):
                if not out[n] or out[n][0][0] != start:
                    seed_op = {"k": "set", "v": 1} if shape.startswith("TS[") else {"k": "S", "ops": [["add", 1]]} if shape.startswith("TSS") else {"k": "D", "ops": [["set", 1, 1]]}
                    out[n] = [[start, [seed_op]]] + [x for x in out[n] if x[0] != start]
            busy = {t for n in ("a", "b") for t, _ in out[n]}
            out["c"] = [x for x in out["c"] if x[0] not in busy]
            if not out["c"] or siblings or not (shape.startswith("TS[") or shape.startswith("TSS") or shape.startswith("TSD[int,TS[int]]")):
                out["switch_fwd"] = False
    return out


def strategy(tier):
    return case(tier)


def schema_of(shape):
    return {"TS[int]": ("TS", "int"), "TSS[int]": ("TSS", "int"), "TSD[int,TS[int]]": ("TSD", "int", ("TS", "int")),
            "TSB[f0:TS[int],f1:TS[int]]": ("TSB", [("f0", ("TS", "int")), ("f1", ("TS", "int"))]),
            "TSL[TS[int],2]": ("TSL", ("TS", "int"), 2)}[shape]


EMPTY = "(empty)"


def tvalid(m):
    return m.has_data() if m.k in ("TSB", "TSL") else m.valid


def val_of(m):
    v = m.val()
    if m.k == "TSD" and v is not None:
        return {k: x for k, x in v}
    return v


def check(case, ctx) -> Result:
    res = Result()
    start, end, shape = case["start"], case["end"], case["shape"]
    via = case.get("via", "ite")
    cond_names = ["c"]
    if via == "ite2":
        stmts = [{"id": "c", "op": "src", "schema": "TS[bool]", "script": case["c"]},
                 {"id": "c2", "op": "src", "schema": "TS[bool]", "script": case["c2"]},
                 {"id": "a", "op": "src", "schema": shape, "script": case["a"]},
                 {"id": "b", "op": "src", "schema": shape, "script": case["b"]},
                 {"id": "g", "op": "src", "schema": shape, "script": case["g"]},
                 {"id": "seli", "op": "op", "name": "if_then_else", "args": [{"ts": "c"}, {"ts": "a"}, {"ts": "b"}], "has_out": True},
                 {"id": "sel0", "op": "op", "name": "if_then_else", "args": [{"ts": "c2"}, {"ts": "g"}, {"ts": "seli"}], "has_out": True}]
        cond_names = ["c", "c2"]

        def pick(st_):     # state of both conditions -> effective target (None while the selection is still undefined)
            if "c2" not in st_:
                return None
            if st_["c2"]:
                return "g"
            return None if "c" not in st_ else ("a" if st_["c"] else "b")
    elif via == "ite":
        stmts = [{"id": "c", "op": "src", "schema": "TS[bool]", "script": case["c"]},
                 {"id": "a", "op": "src", "schema": shape, "script": case["a"]},
                 {"id": "b", "op": "src", "schema": shape, "script": case["b"]},
                 {"id": "sel0", "op": "op", "name": "if_then_else", "args": [{"ts": "c"}, {"ts": "a"}, {"ts": "b"}], "has_out": True}]
        pick = lambda v: "a" if v else "b"
    elif via == "if_":
        stmts = [{"id": "c", "op": "src", "schema": "TS[bool]", "script": case["c"]},
                 {"id": "a", "op": "src", "schema": shape, "script": case["a"]},
                 {"id": "sel0", "op": "op", "name": "if_", "args": [{"ts": "c"}, {"ts": "a"}], "has_out": True}]
        pick = lambda v: "a" if v == case["side"] else EMPTY
    elif via == "switch":
        stmts = [{"id": "c", "op": "src", "schema": "TS[int]", "script": case["c"]},
                 {"id": "a", "op": "src", "schema": shape, "script": case["a"]},
                 {"id": "b", "op": "src", "schema": shape, "script": case["b"]},
                 {"id": "sel0", "op": "op", "name": "switch_", "args": [{"ts": "c"}, {"cases": [[0, "PA"], [1, "PB"]], "key_t": "int", "reload": False}, {"ts": "a"}, {"ts": "b"}], "has_out": True}]
        pick = lambda v: "a" if v == 0 else "b"
    else:
        stmts = [{"id": "c", "op": "src", "schema": "TS[int]", "script": case["c"]},
                 {"id": "z", "op": "src", "schema": "TS[int]", "script": [[start, [{"k": "set", "v": 0}]]]},
                 {"id": "a", "op": "src", "schema": shape, "script": case["a"]},
                 {"id": "b", "op": "src", "schema": shape, "script": case["b"]},
                 {"id": "g", "op": "src", "schema": shape, "script": case["g"]},
                 {"id": "cr", "op": "op", "name": "cmp_", "args": [{"ts": "c"}, {"ts": "z"}], "has_out": True},
                 {"id": "sel0", "op": "op", "name": "if_cmp", "args": [{"ts": "cr"}, {"ts": "a"}, {"ts": "b"}, {"ts": "g"}], "has_out": True}]
        pick = lambda v: "a" if v < 0 else "b" if v == 0 else "g"
    sib = case.get("siblings")
    if sib:
        # one scripted source whose children are the targets; the selection operator is given child references
        tn = [n for n in ("a", "b", "g") if any(x["id"] == n for x in stmts)]
        merged = {}
        for i, n in enumerate(tn):
            for t, ops in case[n]:
                merged.setdefault(t, []).extend({"k": "i", "i": i, "op": op} for op in ops)
        whole = f"TSL[{shape},{len(tn)}]" if sib == "TSL" else "TSB[" + ",".join(f"t{i}:{shape}" for i in range(len(tn))) + "]"
        stmts = [x for x in stmts if x["id"] not in tn]
        stmts.insert(1, {"id": "ab", "op": "src", "schema": whole, "script": [[t, ops] for t, ops in sorted(merged.items())]})
        for x in stmts:
            if x["id"] in ("sel0", "seli"):
                for arg in x["args"]:
                    if arg.get("ts") in tn:
                        arg["ts"] = {"r": "ab", "path": [tn.index(arg["ts"])]}
    subs = {}
    if via == "switch":
        subs["PA"] = {"params": [shape, shape], "names": ["a", "b"], "out": shape, "stmts": [], "ret": {"arg": 0}}
        subs["PB"] = {"params": [shape, shape], "names": ["a", "b"], "out": shape, "stmts": [], "ret": {"arg": 1}}
        if case.get("switch_fwd"):
            subs["PF"] = {"params": [shape], "out": shape, "stmts": [], "ret": {"arg": 0}}
            for nm, i in (("PA", 0), ("PB", 1)):
                subs[nm]["stmts"] = [{"id": "fw", "op": "nested", "sub": "PF", "ins": [{"arg": i}]}]
                subs[nm]["ret"] = "fw"
    sel = "sel0"
    if via == "if_":
        sel = {"r": "sel0", "path": [0 if case["side"] else 1]}      # the "true" / "false" field of the router's output
    if case["nested"]:
        subs["PT"] = {"params": [shape], "out": shape, "stmts": [], "ret": {"arg": 0}}
        stmts.append({"id": "sel1", "op": "nested", "sub": "PT", "ins": [sel]})
        sel = "sel1"
    for j in range(case["n_cons"]):
        stmts.append({"id": f"k{j}", "op": "node", "ins": [sel], "deep": True})
    # a SIGNAL-typed consumer of the same port: it only wants to know THAT the current target ticked or was exchanged
    if via != "if_":
        stmts.append({"id": "ksig", "op": "node", "ins": [sel], "as_signal": True, "log_inputs": False})
    # a consumer of the reference itself: it must tick only when the selection really changes
    if via not in ("switch", "if_"):
        stmts.append({"id": "kref", "op": "node", "ins": ["sel0"], "as_ref": True, "valid": []})
    prog = {"start": start, "end": end, "stmts": stmts}
    if subs:
        prog["subs"] = subs
    resp = ctx.run(prog)
    if resp.get("crash"):
        res.violations.append(Viol("engine_crash", f"worker died {resp.get('signal')} {resp.get('stderr', '')[-500:]}"))
        return res
    if not resp.get("built"):
        err = resp.get("error") or {}
        if case["nested"]:
            # a pass-through of a reference-shaped port through nested_ may legitimately be rejected at wiring time
            res.labels.append("nested_passthrough_rejected")
            res.summary = {"error": str(err)[:200]}
            return res
        raise Rejected(f"C13 generator produced a program the tree rejects: {err}")
    if resp.get("error"):
        res.violations.append(Viol("run_failed", f"run threw: {resp['error']}"))
        return res
    tr = Trace(resp["trace"])
    sch = schema_of(shape)
    names = ["a"] if via == "if_" else ["a", "b"] + (["g"] if via in ("cmp", "ite2") else [])
    if via != "ite2":
        pick1 = pick
        pick = lambda st_: pick1(st_["c"]) if "c" in st_ else None
    MS = {n: tm.M(sch) for n in names}
    scripts = {n: {t: ops for t, ops in case[n]} for n in names}
    conds = {cn: {t: ops for t, ops in case[cn]} for cn in cond_names}
    sc = {t: True for cn in cond_names for t in conds[cn]}
    cstate = {}
    cur = None         # "a" / "b"
    held = None        # the value the consumers hold (contents of the previous target as last seen)
    feats0 = {"shape": shape, "nested": case["nested"], "via": via, "siblings": bool(sib)}
    if case.get("switch_fwd"):
        feats0["switch_fwd"] = True
        res.labels.append("switch_forwarding_output")
    exp = {}           # t -> dict(value, kind, delta alternatives)
    retarget_to_old = unselected_tick_after = False
    maybe_unbound = True
    n_retargets = 0
    for t in range(start, end):
        for n in names:
            MS[n].begin_cycle()
            for op in scripts[n].get(t, []):
                MS[n].apply(op, t)
        new = cur
        if t in sc:
            for cn in cond_names:
                if t in conds[cn]:
                    cstate[cn] = conds[cn][t][-1]["v"]
            new = pick(cstate)
            if new is None:
                new = cur      # an undefined selection publishes nothing: the previous one stays
        if new is None:
            continue
        if new == EMPTY:
            # the router published the EMPTY reference on this field: what the consumer sees of that is not asserted
            # (silent unbind); from now on ticks of a must not reach it, and the next selection is a fresh bind
            if cur not in (None, EMPTY):
                exp[t] = {"kind": "retarget_invalid"}
            elif cur == EMPTY and MS["a"].modified() and retarget_to_old:
                unselected_tick_after = True
            maybe_unbound = True
            cur = EMPTY
            continue
        tgt = MS[new]
        retarget = new != cur
        ticked = tgt.modified()
        if any(MS[n].modified() for n in names if n != new) and not retarget and retarget_to_old:
            unselected_tick_after = True
        if retarget:
            if tvalid(tgt) and not ticked and cur is not None:
                retarget_to_old = True
            if tvalid(tgt):
                v = val_of(tgt)
                olds = [held]
                prev_m = MS.get(cur)
                if prev_m is not None:
                    olds.append(val_of(prev_m))   # the previous target may have ticked in this very cycle
                if maybe_unbound:
                    olds.append(None)              # nothing was bound before (first bind, or after a silent unbind)
                elif case.get("switch_fwd") and n_retargets == 1:
                    olds.append(None)              # F29: the first selection of a forwarding-mode switch_ was not seen as a transition
                maybe_unbound = False
                n_retargets += 1
                prev_valid = prev_m is not None and tvalid(prev_m)
                # (forwarding-mode switch_, F29) a retarget from an absent / invalid target or onto a ticking one
                exp[t] = {"kind": "retarget", "value": v, "olds": olds, "special": bool(ticked or not prev_valid)}
            else:
                exp[t] = {"kind": "retarget_invalid"}
                maybe_unbound = True
        elif ticked:
            exp[t] = {"kind": "tick", "value": val_of(tgt), "old": sorted(tgt.pre) if tgt.k in ("TSS", "TSD") and tgt.pre is not None else None,
                      "written": sorted(k_ for k_, c_ in tgt.value.items() if c_.written) if tgt.k == "TSD" else None}
        cur = new
        if tvalid(tgt):
            held = val_of(tgt)
    sel_changes, last, st2 = [], None, {}
    for t in sorted(sc):
        for cn in cond_names:
            if t in conds[cn]:
                st2[cn] = conds[cn][t][-1]["v"]
        v = pick(st2)
        if v is not None and v != last:
            sel_changes.append(t)
            last = v
    ref_ticks = [d["t"] for d in tr.evals_of("kref", "r") if d["ins"][0].get("m")]
    if via not in ("switch", "if_") and ref_ticks != sel_changes:
        extra = [t for t in ref_ticks if t not in sel_changes]
        res.violations.append(Viol("reference_republished" if extra else "reference_not_published", f"the reference output ticked at {ref_ticks[:12]} but the selection changed at {sel_changes[:12]}", feats0))
    if via != "if_":
        sig = {d["t"] for d in tr.evals_of("ksig", "r")}
        for t in range(start, end):
            e = exp.get(t)
            if e is not None and e["kind"] == "retarget_invalid":
                continue
            if (e is not None) != (t in sig):
                res.violations.append(Viol("missing_evaluation" if e is not None else "unexpected_evaluation",
                                           f"the SIGNAL-typed consumer of the reference was {'not ' if e is not None else ''}evaluated at t={t}; at that time: {(e or {}).get('kind', 'nothing happened to the current target')}",
                                           dict(feats0, signal_consumer=True, kind=(e or {}).get("kind", "none"))))
                break
    for j in range(case["n_cons"]):
        lbl = f"k{j}"
        got = {d["t"]: d["ins"][0] for d in tr.evals_of(lbl, "r")}
        for t in range(start, end):
            e, g = exp.get(t), got.get(t)
            feats = dict(feats0, kind=(e or {}).get("kind", "none"))
            if case.get("switch_fwd") and e is not None and e.get("kind") == "retarget":
                # F29: forwarding-mode switch_, retarget from an invalid / absent target or onto a target ticking in that cycle
                feats["fwd_from_invalid_or_onto_ticking"] = bool(e.get("special"))
            if e is None:
                if g is not None:
                    why = "republished selection" if t in sc else "tick of the unselected target" if any(t in scripts[n] for n in names) else "nothing"
                    res.violations.append(Viol("unexpected_evaluation", f"consumer {lbl} evaluated at t={t} ({why}); it read {str(g.get('val'))[:80]} modified={g.get('m')}", dict(feats, why=why)))
                    break
                continue
            if e["kind"] == "retarget_invalid":
                continue
            if g is None:
                res.violations.append(Viol("missing_evaluation", f"consumer {lbl} not evaluated at t={t} although the {'reference was retargeted to a valid target' if e['kind'] == 'retarget' else 'current target ticked'} (expected value {str(e['value'])[:80]})", feats))
                break
            gv = g.get("val")
            if shape.startswith("TSD") and gv is not None:
                gv = {k: x for k, x in gv}
            if shape.startswith("TSS") and gv is not None:
                gv = sorted(gv)
            if shape.startswith("TSL"):
                from props.c05 import tree_value
                gv = tree_value(g, schema_of(shape))       # validity-aware: None for an element that holds nothing
            if shape.startswith("TSL") or shape.startswith("TSB"):
                # the filtered iteration accessors of the consumer's view agree with its children's own flags, and in a retarget
                # cycle every valid child reads modified (the whole new target is "new" to the consumer)
                ch, it = g.get("ch") or [], g.get("it")
                if isinstance(it, dict) and "mi" in it and all(isinstance(c_.get("m"), bool) for c_ in ch):
                    names = it.get("names") or list(range(len(ch)))
                    e_mi = sorted(str(names[i_]) for i_, c_ in enumerate(ch) if c_["m"])
                    if sorted(map(str, it["mi"])) != e_mi or it.get("mv") != len(e_mi):
                        res.violations.append(Viol("wrong_value_through_reference", f"consumer {lbl} at t={t} ({e['kind']}): modified_items() lists {it['mi']} ({it.get('mv')} modified_values) but the children reading modified are {e_mi}", dict(feats, accessor="modified_items")))
                        break
                if e["kind"] == "retarget" and any(c_.get("v") and not c_.get("m") for c_ in ch):
                    res.violations.append(Viol("wrong_value_through_reference", f"consumer {lbl} at t={t} (retarget): children valid={[c_.get('v') for c_ in ch]} modified={[c_.get('m') for c_ in ch]}: a valid child of the newly selected target does not read modified", dict(feats, accessor="child_modified")))
                    break
            if not g.get("m") or gv != e["value"]:
                res.violations.append(Viol("wrong_value_through_reference", f"consumer {lbl} at t={t} ({e['kind']}): read {str(gv)[:100]} modified={g.get('m')}, the current target holds {str(e['value'])[:100]}", feats))
                break
            if e["kind"] == "tick" and (shape.startswith("TSS") or shape.startswith("TSD")) and e.get("old") is not None:
                # an ordinary tick of the current target: the consumer's delta is the target's own delta of this cycle
                acc = g.get("acc") or {}
                o, n = set(e["old"]), set(e["value"])
                if shape.startswith("TSS"):
                    bad = sorted(acc.get("added", [])) != sorted(n - o) or sorted(acc.get("removed", [])) != sorted(o - n)
                    want = f"added={sorted(n - o)} removed={sorted(o - n)}"
                else:
                    bad = sorted(acc.get("modified", [])) != e["written"] or sorted(acc.get("removed", [])) != sorted(o - n)
                    want = f"modified={e['written']} removed={sorted(o - n)}"
                if bad:
                    res.violations.append(Viol("tick_delta_wrong", f"consumer {lbl} at t={t}: the current target ticked with {want} but the consumer's delta reads added={acc.get('added')} removed={acc.get('removed')} modified={acc.get('modified')}", feats))
                    break
            if e["kind"] == "retarget" and (shape.startswith("TSS") or shape.startswith("TSD")):
                acc = g.get("acc") or {}
                new_v = e["value"]
                ok = stale_only = False
                for old in e["olds"]:
                    o = set(old or [])
                    n = set(new_v)
                    g_removed = set(acc.get("removed", []))
                    if shape.startswith("TSS"):
                        add_ok = sorted(acc.get("added", [])) == sorted(n - o)
                    else:
                        # dictionaries: keys new to the consumer AND keys it already held whose value differs in the new
                        # target are part of the retarget delta
                        changed = {k_ for k_ in (o & n) if isinstance(old, dict) and old.get(k_) != new_v.get(k_)}
                        add_ok = ((n - o) | changed) <= set(acc.get("modified", [])) <= n
                    if add_ok and g_removed == (o - n):
                        ok = True
                    elif add_ok and g_removed > (o - n) and not ((g_removed - (o - n)) & (o | n)):
                        stale_only = True      # extra "removed" entries that were neither in the old nor in the new contents
                if not ok:
                    res.violations.append(Viol("retarget_delta_wrong", f"consumer {lbl} at t={t}: retarget delta added={acc.get('added')} removed={acc.get('removed')} modified={acc.get('modified')}; old contents (alternatives) {e['olds']}, new contents {new_v}",
                                               dict(feats, only_stale_removed=stale_only)))
                    break
        if res.violations:
            break
    res.nontrivial = retarget_to_old and unselected_tick_after
    kinds = {e["kind"] for e in exp.values()}
    for k in sorted(kinds):
        res.labels.append(k)
    if retarget_to_old:
        res.labels.append("retarget_to_earlier_ticked")
    if unselected_tick_after:
        res.labels.append("unselected_tick")
    if case["nested"]:
        res.labels.append("nested_passthrough")
    res.labels.append("shape_" + shape.split("[")[0])
    res.labels.append("via_" + via)
    if sib:
        res.labels.append("sibling_targets_" + sib)
    res.summary = {"expected": {t: e["kind"] for t, e in sorted(exp.items())}, "shape": shape}
    return res
