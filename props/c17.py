"""C17 — the real-time loop never runs early, never drops a wake-up, always stops."""
from __future__ import annotations

from hypothesis import strategies as st

from hgv.runner import Result, Viol
from hgv.schedmodel import Walk
from hgv.worker import HarnessError, Rejected

ID = "C17"
MAX_SHARDS = 4
RULE = ("Real-time programs a few milliseconds long: 1-3 self-scheduling timer nodes (relative engine-time requests made during start "
        "and while running, tagged / re-armed chains, wall-clock alarms incl. already-due ones), optionally a node that sleeps so the "
        "graph lags behind the wall clock, optionally a push source fed by a producer thread while the loop is evaluating and while it is "
        "idle-waiting with a 1 h wait slice; the run ends either by end_time (incl. reached while lagging, or with an idle graph) or by a "
        "request_stop from the controller thread at a generated offset. Checked from (evaluation_time, wall clock) logged by every node "
        "evaluation: cycle times strictly increase inside [start, end); wall clock >= evaluation_time at every evaluation (never early); "
        "every relative request is evaluated at exactly its time and none is dropped (pending-request model; requests due before the "
        "end must fire when the run ends by end_time); every wall-clock alarm due before the end produces a later evaluation; every "
        "value pushed while the loop waits is delivered (measured drain); run() returns after request_stop / end_time within a 20 s "
        "watchdog. Non-trivial = an already-due alarm, a push during the wait and a stop during the wait in one history, or an end_time "
        "reached while lagging. Distinct = canonical JSON of the case.")
ASSUMPTIONS = ["no timing upper bound is asserted except the 20 s watchdog; lateness is always allowed",
               "chains re-arm no faster than every 150 us so the documented 1024-consecutive-MIN_TD drain cut-off cannot apply",
               "OS thread schedules are sampled, not enumerated"]


def examples(tier):
    return 1600 if tier == "quick" else 30000


def budget_s(tier):
    return 80 if tier == "quick" else 600


@st.composite
def case(draw, tier):
    window_us = draw(st.integers(3000, 15000))
    by_end = draw(st.booleans())
    timers = []
    for i in range(draw(st.integers(1, 3))):
        sched = {}
        start_ops = []
        for _ in range(draw(st.integers(0, 2))):
            start_ops.append(["s", "rel", draw(st.sampled_from([0, 100, 700, 2500, 6000])), draw(st.sampled_from([None, "a"]))])
        wall = draw(st.integers(0, 2)) == 0
        if wall:
            start_ops.append(["s", "wallrel", draw(st.sampled_from([-500, 0, 300, 2000])), "w"])   # tagged: the logged tag time is the alarm's engine time
        if start_ops:
            sched["start"] = start_ops
        if draw(st.booleans()):
            sched["every"] = [["s", "rel", draw(st.sampled_from([150, 400, 1000, 3000])), draw(st.sampled_from([None, "c"]))]]
        if draw(st.integers(0, 2)) == 0:
            sched["ord"] = {str(draw(st.integers(0, 3))): [["s", "rel", draw(st.sampled_from([1, 50, 500])), None], ["u", None] if draw(st.integers(0, 3)) == 0 else ["q"]]}
        if draw(st.integers(0, 2)) == 0:
            # wall-clock alarms requested WHILE RUNNING, some for a deadline that has already passed (relative to the
            # evaluation time or to the wall clock): they must be booked for a later cycle, never dropped
            mode = draw(st.sampled_from(["wallrel", "wall"]))
            k_ = str(draw(st.integers(0, 4)))
            sched.setdefault("ord", {})
            sched["ord"][k_] = [op for op in sched["ord"].get(k_, []) if op[0] != "u"] + [["s", mode, draw(st.sampled_from([-5000, -500, -1, 0, 1, 300, 2000])), "x"]]
            # nothing in this node cancels requests: the alarm under tag "x" stays pending until it fires
            for kk, ops_ in sched["ord"].items():
                sched["ord"][kk] = [["q"] if op[0] == "u" else op for op in ops_]
        if not sched:
            sched["start"] = [["s", "rel", 500, None]]
        timers.append({"id": f"t{i}", "op": "node", "ins": [], "out": "TS[int]", "fn": "count", "sched": sched, "tags": ["a", "c", "w", "x"], "clock": True, "log_inputs": False})
    sleeper = draw(st.integers(0, 2)) == 0
    push = draw(st.booleans())
    producers = [[]]
    if push:
        k = 0
        for ph in (1, 3):
            for _ in range(draw(st.integers(0, 3))):
                k += 1
                producers[0].append({"ph": ph, "v": k, "blocking": False, "delay_us": draw(st.sampled_from([0, 100, 800]))})
    # request_stop() from the controller thread BEFORE the runner thread has entered run(): the run must still end
    stop_before_run = draw(st.integers(0, 14)) == 0
    # run window: starts "now" (default), a little in the past (the loop lags from its first cycle) or in the future
    start_in_us = draw(st.sampled_from([None, None, None, -3000, -200, 1500, 4000]))
    # the push source itself may use the scheduler: its start hook books one timer, and values pushed before that time must not
    # make the loop forget it
    ps_timer_us = draw(st.sampled_from([0, 0, 1500, 4000, 9000])) if push else 0
    return {"ps_timer_us": ps_timer_us, "start_in_us": start_in_us, "stop_before_run": stop_before_run, "window_us": window_us, "by_end": by_end, "timers": timers, "sleep_us": draw(st.sampled_from([600, 2000, 5000])) if sleeper else 0,
            "push": push, "producers": producers, "stop_after_us": draw(st.sampled_from([0, 300, 3000]))}


def strategy(tier):
    return case(tier)


def check(case, ctx) -> Result:
    res = Result()
    if case.get("stop_before_run"):
        # the stop request precedes run(): the run ends right after its start; nothing else is required of such a history
        # than that it ends (watchdog) and that whatever did run obeys the time rules
        case = dict(case, push=False, producers=[[]], by_end=False)
    stmts = [dict(t) for t in case["timers"]]
    if case["sleep_us"]:
        stmts.append({"id": "slow", "op": "node", "ins": ["t0"], "out": "TS[int]", "fn": "sum", "sleep_us": case["sleep_us"], "clock": True, "log_inputs": False})
    if case["push"]:
        stmts.append({"id": "ps", "op": "push_src", "schema": "TS[int]", "policy": "queue", "capacity": 0, **({"start_timer_us": case["ps_timer_us"]} if case.get("ps_timer_us") else {})})
        stmts.append({"id": "sink", "op": "node", "ins": ["ps"], "collect": True, "clock": True})
    prog = {"mode": "rt", "max_wait_slice_us": 3600000000, "node_events": True, "stmts": stmts}
    rt = {"n_push": 1 if case["push"] else 0, "producers": case["producers"], "count_drain": case["push"]}

    if case.get("start_in_us") is not None:
        prog["start_in_us"] = case["start_in_us"]
    if case["by_end"]:
        prog["end_in_us"] = case["window_us"] + max(0, case.get("start_in_us") or 0)
    else:
        rt["stop_after_us"] = case["stop_after_us"]
    if case.get("stop_before_run"):
        rt["stop_before_run"] = True
        rt.pop("stop_after_us", None)      # that early request is the only one
    resp = ctx.request({"op": "realtime", "prog": prog, "rt": rt}, timeout=90)
    feats = {"by_end": case["by_end"], "push": case["push"], "lag": bool(case["sleep_us"]), "stop_before_run": bool(case.get("stop_before_run"))}
    if resp.get("crash"):
        res.violations.append(Viol("engine_crash_or_hang", f"real-time run died or hung: signal={resp.get('signal')} hang={resp.get('hang')} {resp.get('stderr', '')[-300:]}", dict(feats, hang=bool(resp.get("hang")))))
        return res
    if not resp.get("built"):
        raise Rejected(f"C17 program rejected: {resp.get('error')}")
    if resp.get("error"):
        res.violations.append(Viol("run_failed", f"run() threw: {resp['error']}", feats))
        return res
    if not resp.get("watchdog_ok"):
        res.violations.append(Viol("run_did_not_stop", f"run() had not returned within 20 s ({'end_time' if case['by_end'] else 'request_stop'})", feats))
        return res
    start, end = resp["window"]
    if end == "max":
        end = None
    # the pending-request model over the trace (relative requests are exact in real time too)
    mprog = {"start": start, "end": end if case["by_end"] else None, "stmts": stmts}
    w = Walk(mprog, {"trace": resp["trace"], "graph": resp.get("graph"), "error": None}, check_queries=True).run()
    keep = {"missed_wakeup", "wakeup_not_delivered", "time_not_increasing", "cycle_outside_window", "query_disagrees"}
    seen = set()
    for clause, msg, f2 in w.viol:
        if clause in keep and clause not in seen:
            seen.add(clause)
            res.violations.append(Viol(clause, msg, dict(feats, **f2)))
    # never early; alarms delivered
    evals = [e for e in resp["trace"] if e[0] == "ev" and len(e) > 7]
    for e in evals:
        now = e[7].get("now")
        if now is not None and now < e[4]:
            res.violations.append(Viol("evaluated_before_wall_clock", f"node {e[3]} evaluated for engine time {e[4]} when the wall clock read {now} ({e[4] - now} us early)", feats))
            break
    last_cycle = max([e[2] for e in resp["trace"] if e[0] == "gE" and e[1] == "r"], default=None)
    already_due = False
    for t in case["timers"]:
        req = []   # (t_request, delta, engine time the alarm was booked for)
        for e in resp["trace"]:
            ops_ = e[5] if (e[0] == "us" and e[3] == t["id"] and len(e) > 5) else \
                (e[7].get("sq") or []) if (e[0] == "ev" and e[3] == t["id"] and len(e) > 7 and isinstance(e[7], dict)) else []
            for op in ops_:       # requests made during start and during evaluations alike
                if op[0] == "s" and str(op[1]).startswith("wall"):
                    q = op[-1]
                    booked = q[3].get(op[3], [False, -1])[1] if isinstance(q, list) and len(q) > 3 else -1
                    req.append((e[4], op[2], booked))
        my = [e[4] for e in evals if e[3] == t["id"]]
        for (tr_, d, due) in req:
            if d <= 0:
                already_due = True
            if due == -1:
                res.violations.append(Viol("alarm_not_booked", f"node {t['id']} asked at {tr_} for a wall-clock alarm {d} us later but the scheduler holds no request under its tag", feats))
                break
            if due < tr_:
                res.violations.append(Viol("alarm_in_the_past", f"node {t['id']}: alarm booked for {due}, before the evaluation time {tr_} that requested it", feats))
                break
            horizon_ok = (due < end) if (case["by_end"] and end is not None) else (last_cycle is not None and due <= last_cycle)
            if horizon_ok and not any(x >= due for x in my):
                res.violations.append(Viol("alarm_dropped", f"node {t['id']} asked at {tr_} for a wall-clock alarm {d} us later, booked for engine time {due}; the run went on until {end if case['by_end'] else last_cycle} but the node was never evaluated at or after {due} (its evaluations: {my[:8]})", feats))
                break
    # the push source's own timer: a cycle at exactly that time that visits the source, if the run went on that long
    for e in resp["trace"]:
        if e[0] == "pst":
            idx, due = e[2], e[5]
            owed = (due < end) if (case["by_end"] and end is not None) else (last_cycle is not None and due <= last_cycle)
            hit = False
            cur_t = None
            for x in resp["trace"]:
                if x[0] == "gE" and x[1] == "r":
                    cur_t = x[2]
                elif x[0] == "nE" and x[1] == "r" and x[2] == idx and cur_t == due:
                    hit = True
                    break
            if owed and not hit:
                pushes_before = sum(1 for s_ in resp["log"] if s_[0] == "send")
                res.violations.append(Viol("missed_wakeup", f"the push source booked a timer for {due} in its start hook (started at {e[4]}); the run went on until {end if case['by_end'] else last_cycle} but no cycle at {due} visited it ({pushes_before} values were pushed)", dict(feats, push_source_timer=True)))
            res.labels.append("push_source_with_timer")
    drains = [e for e in resp["log"] if e[0] == "drain"]
    if case["push"] and any(not d[2] for d in drains):   # accepted implies the source was still running: it must be delivered
        res.violations.append(Viol("push_not_delivered_while_waiting", f"values pushed while the loop was running/waiting were not delivered within the drain timeout: {drains}", feats))
    sends = [e for e in resp["log"] if e[0] == "send"]
    if not case["by_end"] and any((not e[7]) and e[5] <= 3 for e in sends):   # with an end_time the source may already have stopped
        res.violations.append(Viol("unbounded_send_refused", "a push was refused while the run was going", feats))
    lag = any((e[7].get("now") or 0) - e[4] > 1000 for e in evals)
    stop_in_wait = (not case["by_end"])
    res.nontrivial = (already_due and any(e[5] == 3 for e in sends) and stop_in_wait) or (case["by_end"] and lag)
    if already_due:
        res.labels.append("already_due_alarm")
    if case.get("stop_before_run"):
        res.labels.append("stop_requested_before_run")
    if lag:
        res.labels.append("lagging_over_1ms")
    if any(e[5] == 3 for e in sends):
        res.labels.append("push_during_wait")
    res.labels.append("ends_by_end_time" if case["by_end"] else "ends_by_request_stop")
    if w.wall_nodes:
        res.labels.append("wall_alarm")
    res.summary = {"cycles": len(w.root_cycles), "window": [start, end], "facts": {k: v for k, v in w.facts.items() if v}}
    return res
