"""C18 — the node scheduler wakes the node at every pending time and its queries agree with the pending set."""
from __future__ import annotations

import hypothesis
from hypothesis import strategies as st
from hypothesis.stateful import RuleBasedStateMachine, initialize, precondition, rule, run_state_machine_as_test

from hgv import gen
from hgv.runner import Result, Viol
from hgv.schedmodel import Pending, Walk
from hgv.worker import HarnessError, Rejected

ID = "C18"
RULE = ("Two generators. (unit) operation sequences schedule(abs|rel, tag?) / un_schedule(tag?) / pop_tag / reset / advance at chosen, "
        "monotonically increasing `now`s, first in the not-yet-started phase then started, run against a bare NodeScheduler compiled "
        "from the tree and compared after every operation with a multiset model (next time, is-scheduled, is-scheduled-now, every tag "
        "lookup, the event set itself); histories come both from a composite strategy and from a Hypothesis RuleBasedStateMachine. "
        "(graph) 1-3 self-scheduling nodes inside a running graph executing the same operations across cycles, interleaved with "
        "input-driven evaluations; every pending time must get a cycle that visits the node, never early, never in the past, and the "
        "answers logged inside each evaluation must equal the model's. Non-trivial = the history contains a tag replacement followed "
        "by a cancel, or a cancel of the earliest request while a later one stays pending, or two requests for one time, or (graph) an "
        "input-driven evaluation between a request and its firing. Distinct = canonical JSON of the case.")
ASSUMPTIONS = ["a cycle at the time of a cancelled request is tolerated here (that deviation is known finding F1, owned by C03)"]
TAGS = ["a", "b", "c"]


def examples(tier):
    return 8000 if tier == "quick" else 120000


def budget_s(tier):
    return 70 if tier == "quick" else 600


# ------------------------------------------------------------------------------------------------------- unit level
@st.composite
def unit_case(draw, tier):
    n = draw(st.integers(1, 60 if tier == "thorough" else 25))
    now = draw(st.sampled_from([0, 5, 1000]))
    started = draw(st.integers(0, 3)) != 0
    ops = []
    for _ in range(n):
        k = draw(st.sampled_from(["s", "s", "s", "s", "u", "ut", "pop", "reset", "adv", "adv", "tick", "q", "start"]))
        if k == "tick":
            now += draw(st.integers(1, 4))
            k = "q"
        if k == "start":
            started = True
            k = "q"
        op = {"k": k, "now": now, "started": started}
        if k == "s":
            op["mode"] = draw(st.sampled_from(["abs", "rel"]))
            if op["mode"] == "rel":
                op["n"] = draw(st.integers(-2, 8))
            else:
                op["n"] = now + draw(st.integers(-2, 8))
            tg = draw(st.sampled_from([None, None] + TAGS))
            if tg:
                op["tag"] = tg
        elif k == "ut":
            op["k"] = "u"
            op["tag"] = draw(st.sampled_from(TAGS))
        elif k == "pop":
            op["tag"] = draw(st.sampled_from(TAGS))
        ops.append(op)
    return {"kind": "unit", "ops": ops}


def check_unit(case, ctx, res):
    resp = ctx.request({"op": "sched_unit", "ops": case["ops"], "tags": TAGS})
    if resp.get("crash"):
        res.violations.append(Viol("engine_crash", f"worker died in sched_unit: {resp.get('signal')} {resp.get('stderr', '')[-300:]}"))
        return
    p = Pending()
    kinds = set()
    last_replaced = None
    for i, (op, got) in enumerate(zip(case["ops"], resp["res"])):
        k, now, started = op["k"], op["now"], op["started"]
        x = None
        if k == "s":
            when = now + op["n"] if op["mode"] == "rel" else op["n"]
            tag = op.get("tag")
            had = bool(tag) and tag in p.tags
            same_time = any(t == when for t, _ in p.events)
            if p.schedule(when, tag, now, started):
                if had:
                    last_replaced = tag
                    kinds.add("tag_replaced")
                if same_time:
                    kinds.add("two_at_one_time")
            elif (when <= now if started else when < now):
                kinds.add("ignored_past")
            if not started and when == now:
                kinds.add("now_during_start")
        elif k == "u":
            tag = op.get("tag")
            if tag is None and len({t for t, _ in p.events}) >= 2:
                kinds.add("cancel_earliest_keep_later")
            if tag is not None and tag == last_replaced and tag in p.tags:
                kinds.add("replace_then_cancel")
            p.un_schedule(tag)
        elif k == "pop":
            if op["tag"] == last_replaced and op["tag"] in p.tags:
                kinds.add("replace_then_cancel")
            x = p.pop(op["tag"])
        elif k == "reset":
            p.reset()
        elif k == "adv":
            p.advance(now)
        m = p.min()
        exp = {"nst": m if m is not None else -1, "is": bool(p.events), "now": m == now,
               "tags": {tg: [tg in p.tags, p.tags.get(tg, -1), p.tags.get(tg) == now] for tg in TAGS},
               "events": sorted([t, tg] for t, tg in p.events)}
        g = dict(got)
        gx = g.pop("x")
        g["events"] = sorted(g["events"])
        if k == "pop" and gx != x:
            res.violations.append(Viol("query_disagrees", f"op #{i} pop_tag({op['tag']}) returned {gx}, pending set says {x}", {"query": "pop"}))
            break
        if g != exp:
            which = next(kk for kk in ("events", "nst", "is", "now", "tags") if g[kk] != exp[kk])
            res.violations.append(Viol("pending_set_wrong" if which == "events" else "query_disagrees",
                                       f"after op #{i} {op}: scheduler says {g}, model says {exp} (history: {case['ops'][:i + 1][-6:]})", {"query": which}))
            break
    res.labels += sorted(kinds)
    res.nontrivial = bool(kinds & {"replace_then_cancel", "cancel_earliest_keep_later", "two_at_one_time"})
    res.summary = {"n_ops": len(case["ops"]), "kinds": sorted(kinds)}


# ------------------------------------------------------------------------------------------------------ graph level
@st.composite
def graph_case(draw, tier):
    big = tier == "thorough"
    start = draw(st.sampled_from([0, 0, 6, 2000000]))
    horizon = draw(st.integers(4, 50 if big else 22))
    end = start + horizon
    stmts, ports = [], []
    for i in range(draw(st.integers(1, 2))):
        stmts.append({"id": f"s{i}", "op": "src", "schema": "TS[int]", "script": draw(gen.int_script(start, end - 1, max_size=8 if big else 5))})
        ports.append(f"s{i}")
    for i in range(draw(st.integers(1, 3))):
        nin = draw(st.integers(0, min(2, len(ports))))
        ins = [draw(st.sampled_from(ports)) for _ in range(nin)]
        sched = gen.rebase_sched(draw(gen.sched_script(horizon, 0, max_ops=4)), start)
        if draw(st.booleans()):
            sched["every"] = draw(st.lists(gen.sched_op(min(horizon, 5)), min_size=1, max_size=2))
        nd = {"id": f"n{i}", "op": "node", "ins": ins, "out": "TS[int]", "fn": "count", "sched": sched, "tags": TAGS,
              "valid": [], "log_inputs": True}
        if ins and draw(st.integers(0, 2)) == 0:
            del nd["valid"]     # woken-but-not-ready evaluations (an input still invalid) must not lose pending requests
        stmts.append(nd)
        ports.append(f"n{i}")
    if draw(st.sampled_from([0, 1, 2, 3])) == 0:
        # the scheduler nodes live in a nested child graph (their wake-ups travel through the nested node's own schedule,
        # and input ticks visit the parent while their requests are pending)
        srcs = [s_ for s_ in stmts if s_["op"] == "src"]
        names = [s_["id"] for s_ in srcs]
        body = []
        for s_ in stmts:
            if s_["op"] == "node":
                body.append(dict(s_, ins=[({"arg": names.index(r)} if r in names else r) for r in s_["ins"]]))
        sub = {"params": ["TS[int]"] * len(names), "out": "TS[int]", "stmts": body, "ret": body[-1]["id"]}
        top = srcs + [{"id": "nest", "op": "nested", "sub": "G", "ins": names}, {"id": "rec", "op": "node", "ins": ["nest"], "log_inputs": False}]
        return {"kind": "graph", "nested": True, "prog": {"start": start, "end": end, "stmts": top, "subs": {"G": sub}}}
    stmts.append({"id": "rec", "op": "node", "ins": [ports[-1]], "log_inputs": False})
    return {"kind": "graph", "prog": {"start": start, "end": end, "stmts": stmts}}


def check_graph(case, ctx, res):
    prog = case["prog"]
    resp = ctx.run(prog)
    if resp.get("crash"):
        res.violations.append(Viol("engine_crash", f"worker died: {resp.get('signal')} {resp.get('stderr', '')[-400:]}"))
        return
    if not resp.get("built"):
        raise Rejected(f"C18 generator produced a program the tree rejects: {resp.get('error')}")
    if resp.get("error"):
        res.violations.append(Viol("run_failed", f"run() threw on a valid program: {resp['error']}"))
    w = Walk(prog, resp, check_queries=True).run()
    seen = set()
    for clause, msg, feats in w.viol:
        if clause == "spurious_cycle":
            continue
        key = (clause, tuple(sorted(feats.items())))
        if key not in seen:
            seen.add(key)
            res.violations.append(Viol(clause, msg, feats))
    f = w.facts
    for k in ("tag_replaced", "cancelled", "shared_time", "resched_earlier", "input_evals_while_pending", "ignored", "start_requests"):
        if f[k]:
            res.labels.append("g_" + k)
    res.nontrivial = f["input_evals_while_pending"] >= 1 and (f["cancelled"] >= 1 or f["shared_time"] >= 1)
    if case.get("nested"):
        res.labels.append("g_scheduler_nodes_in_a_nested_graph")
    res.summary = {"cycles": w.root_cycles[:30], "facts": f}


def strategy(tier):
    return st.one_of(unit_case(tier), graph_case(tier))


def check(case, ctx) -> Result:
    res = Result()
    if case["kind"] == "unit":
        check_unit(case, ctx, res)
    else:
        check_graph(case, ctx, res)
    return res


# ------------------------------------------------------------------------------- stateful pass (model-based machine)
def extra_pass(ctx, tier, hseed, one, deadline):
    """A RuleBasedStateMachine builds the unit-level history step by step together with the model; the whole history is
    replayed through the worker at teardown (the scheduler state lives inside one request) and compared step by step."""

    class SchedMachine(RuleBasedStateMachine):
        def __init__(self):
            super().__init__()
            self.ops = []
            self.now = 0
            self.started = False
            self.model = Pending()

        def _add(self, op):
            op.update(now=self.now, started=self.started)
            self.ops.append(op)

        @rule(mode=st.sampled_from(["abs", "rel"]), d=st.integers(-2, 9), tag=st.sampled_from([None, None] + TAGS))
        def schedule(self, mode, d, tag):
            op = {"k": "s", "mode": mode, "n": d if mode == "rel" else self.now + d}
            if tag:
                op["tag"] = tag
            self.model.schedule(self.now + d, tag, self.now, self.started)
            self._add(op)

        @precondition(lambda self: len(self.model.tags) > 0)
        @rule(data=st.data())
        def cancel_live_tag(self, data):
            tag = data.draw(st.sampled_from(sorted(self.model.tags)))
            self.model.un_schedule(tag)
            self._add({"k": "u", "tag": tag})

        @rule(tag=st.sampled_from(TAGS))
        def pop(self, tag):
            self.model.pop(tag)
            self._add({"k": "pop", "tag": tag})

        @rule()
        def cancel_earliest(self):
            self.model.un_schedule(None)
            self._add({"k": "u"})

        @rule()
        def reset(self):
            self.model.reset()
            self._add({"k": "reset"})

        @rule()
        def finish_start(self):
            self.started = True
            self._add({"k": "q"})

        @rule(dt=st.integers(1, 4))
        def next_cycle(self, dt):
            self.now += dt
            self._add({"k": "q"})

        @precondition(lambda self: self.model.min() is not None)
        @rule()
        def jump_to_next_event_and_fire(self):
            self.now = max(self.now, self.model.min())
            self.started = True
            self.model.advance(self.now)
            self._add({"k": "adv"})

        def teardown(self):
            if self.ops:
                one({"kind": "unit", "ops": self.ops})

    from hypothesis import HealthCheck, Phase, settings
    n = 150 if tier == "quick" else 2500
    run_state_machine_as_test(hypothesis.seed(hseed)(SchedMachine),
                              settings=settings(max_examples=n, stateful_step_count=40, database=None, deadline=None,
                                                phases=[Phase.generate], suppress_health_check=list(HealthCheck)))
