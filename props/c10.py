"""C10 — map_ runs one isolated instance per key and mirrors the key set."""
from __future__ import annotations

import copy

from hypothesis import strategies as st

from hgv import gen
from hgv import tsmodel as tm
from hgv.runner import Result, Viol
from hgv.trace import Trace
from hgv.worker import HarnessError, Rejected
from props.c05 import tree_value

ID = "C10"
ASAN_THOROUGH = True   # thorough tier runs against the AddressSanitizer build
RULE = ("A mapped function F generated from the vocabulary (stateless sum, stateful accumulator / counter, self-scheduling timer, "
        "optionally consuming the key and a broadcast argument, 1-3 chained nodes) is applied with map_ to a scripted TSD[int,TS[int]] "
        "whose key history has adds, updates, removes, re-adds in later cycles, several keys per cycle and growth bursts across 8/16/32 "
        "live keys; a quarter of the cases are NESTED maps (a TSD[int,TSD[int,TS[int]]] whose mapped function maps the inner function over each "
        "element, compared per outer key with the inner map_ run alone on that key's element stream). The oracle runs F ALONE - one inlined copy per (key, lifetime) in a second engine run, fed exactly that key's element "
        "ticks, the key, and the broadcast value sampled at the appearance - and requires, per key and lifetime, the same (time, value) "
        "stream inside the map output, the output key set = live keys whose instance has produced a value, removal deltas at the "
        "removal cycle, one child start per appearance and one stop per removal. Non-trivial = a re-add of a removed key with a "
        "stateful or self-scheduling F, or >= 9 simultaneously live keys. Distinct = canonical JSON of the case.")
ASSUMPTIONS = ["same-cycle erase + re-write of one key is not generated (F6, owned by C05); add+remove of a new key inside one cycle never appears in the key set",
               "F computes from input values, its own state and relative timers only"]


def examples(tier):
    return 4000 if tier == "quick" else 50000


def budget_s(tier):
    return 80 if tier == "quick" else 600


@st.composite
def fn_body(draw, params, horizon):
    """params: list of port refs usable inside; returns (stmts, ret, flags)"""
    body, ports = [], list(params)
    flags = set()
    n = draw(st.integers(1, 3))
    for j in range(n):
        nin = draw(st.integers(1, min(2, len(ports))))
        if j == 0:
            ins = []      # the element is put first below
        else:
            ins = [f"b{j - 1}"]     # chain: every node feeds the result
        while len(ins) < nin:
            ins.append(draw(st.sampled_from(ports)))
        kind = draw(st.sampled_from(["sum", "sum", "acc", "count", "timer"]))
        node = {"id": f"b{j}", "op": "node", "ins": ins, "out": "TS[int]", "coef": [draw(st.integers(1, 3)) for _ in ins],
                "bias": draw(st.integers(0, 4)), "log_inputs": j == 0}
        if kind == "timer":
            node["fn"] = "count"
            node["sched"] = {"tick": [["s", "rel", draw(st.integers(1, min(6, horizon))), draw(st.sampled_from([None, "a"]))]]}
            node["tags"] = ["a"]
            flags.add("self_scheduling")
        else:
            node["fn"] = kind
            if kind in ("acc", "count"):
                flags.add("stateful")
        body.append(node)
        ports.append(f"b{j}")
    return body, f"b{n - 1}", flags


@st.composite
def case(draw, tier):
    big = tier == "thorough"
    start = draw(st.sampled_from([0, 0, 3]))
    horizon = draw(st.integers(5, 40 if big else 18))
    end = start + horizon
    use_key = draw(st.booleans())
    use_b = draw(st.booleans())
    names, params, refs = [], [], []
    if use_key:
        names.append("key"); params.append("TS[int]")
    names.append("x"); params.append("TS[int]")
    if use_b:
        names.append("bb"); params.append("TS[int]")
    refs = [{"arg": i} for i in range(len(params))]
    body, ret, flags = draw(fn_body(refs, horizon))
    # make sure the element itself is consumed by the first node
    xref = {"arg": names.index("x")}
    if xref not in body[0]["ins"]:
        body[0]["ins"] = [xref] + body[0]["ins"][:1]
        body[0]["coef"] = [1] * len(body[0]["ins"])
    F = {"params": params, "names": names, "out": "TS[int]", "stmts": body, "ret": ret}
    opts = {"cancel": True, "multi": True, "no_rewrite": True, "grow": draw(st.integers(0, 3)) == 0, "keys": draw(st.sampled_from([3, 6, 10]))}
    script = draw(tm.history(("TSD", "int", ("TS", "int")), start, horizon, opts, max_cycles=14 if big else 8))
    if script and draw(st.integers(0, 24)) == 0:
        # a burst that takes the live key count past one 64-slot bitmap word (keys 200.. live until the end; some are updated later)
        n_burst = draw(st.integers(60, 90))
        script[0][1].append({"k": "D", "ops": [["set", 200 + j, j % 7] for j in range(n_burst)]})
        for t, ops in script[1:]:
            if draw(st.booleans()):
                ops.append({"k": "D", "ops": [["set", 200 + draw(st.integers(0, n_burst - 1)), draw(st.integers(0, 30))]]})
    b_script = draw(gen.int_script(start, end - 1, max_size=5)) if use_b else None
    # optional second multiplexed dictionary: its keys are a subset of the first one's, appear at or after them (until
    # then the child's input is a phantom, i.e. invalid) and leave together with them
    d2 = None
    if draw(st.integers(0, 2)) == 0:
        d2 = {"lag": draw(st.integers(0, 3)), "skip_mod": draw(st.integers(2, 4)),
              # differing key sets: a key may leave the second dictionary while the first keeps its child alive, and come back
              "leave_after": draw(st.sampled_from([0, 0, 1, 2, 3])), "readd_after": draw(st.sampled_from([0, 1, 2])),
              "yy_passive": draw(st.booleans()),
              # the second dictionary's element also ticks ALONE (in cycles in which the first one's element does not)
              "solo_ticks": draw(st.booleans())}
    # passive(b): the map NODE does not listen to the broadcast argument; children that read it actively are woken out of band
    b_passive = use_b and draw(st.integers(0, 2)) == 0
    return {"start": start, "end": end, "F": F, "use_key": use_key, "use_b": use_b, "b_passive": b_passive, "script": script, "b_script": b_script,
            "flags": sorted(flags), "d2": d2}


@st.composite
def nested_case(draw, tier):
    """map_ inside map_: the outer dictionary's elements are dictionaries, the mapped function maps an inner function over them"""
    big = tier == "thorough"
    start = draw(st.sampled_from([0, 0, 3]))
    horizon = draw(st.integers(5, 30 if big else 14))
    body, ret, flags = draw(fn_body([{"arg": 0}], horizon))
    if {"arg": 0} not in body[0]["ins"]:
        body[0]["ins"] = [{"arg": 0}] + body[0]["ins"][:1]
        body[0]["coef"] = [1] * len(body[0]["ins"])
    F = {"params": ["TS[int]"], "names": ["x"], "out": "TS[int]", "stmts": body, "ret": ret}
    opts = {"cancel": True, "multi": True, "no_rewrite": True, "keys": draw(st.sampled_from([2, 4]))}
    script = draw(tm.history(("TSD", "int", ("TSD", "int", ("TS", "int"))), start, horizon, opts, max_cycles=10 if big else 7))
    return {"kind": "nested", "start": start, "end": start + horizon, "F": F, "script": script, "flags": sorted(flags)}


@st.composite
def tsl_case(draw, tier):
    """map_ over a list: fixed size (one instance per index from the start) or dynamic (grow-only; an index appears when the
    list grows past it, also as a hole that is never written) - runtime/tsl_map_node.cpp"""
    big = tier == "thorough"
    start = draw(st.sampled_from([0, 0, 3]))
    horizon = draw(st.integers(5, 30 if big else 16))
    end = start + horizon
    use_key = draw(st.booleans())
    use_b = draw(st.booleans())
    names, params = [], []
    if use_key:
        names.append("ndx"); params.append("TS[int]")
    names.append("x"); params.append("TS[int]")
    if use_b:
        names.append("bb"); params.append("TS[int]")
    refs = [{"arg": i} for i in range(len(params))]
    body, ret, flags = draw(fn_body(refs, horizon))
    xref = {"arg": names.index("x")}
    if xref not in body[0]["ins"]:
        body[0]["ins"] = [xref] + body[0]["ins"][:1]
        body[0]["coef"] = [1] * len(body[0]["ins"])
    F = {"params": params, "names": names, "out": "TS[int]", "stmts": body, "ret": ret}
    n = draw(st.sampled_from([0, 0, 0, 1, 2, 4]))
    cap = (n - 1) if n else (70 if draw(st.integers(0, 14)) == 0 else (24 if big else 10))
    script, top = [], -1
    for t in draw(gen.time_set(start, end - 1, 1, 12 if big else 7)):
        ops, used = [], set()
        for _ in range(draw(st.integers(1, 3))):
            # mostly: an existing index or the next one; sometimes a jump that leaves holes
            hi = cap if n else min(cap, top + draw(st.sampled_from([1, 1, 1, 2, 3, 9])))
            i = draw(st.integers(0, max(0, hi)))
            if i in used:
                continue
            used.add(i)
            top = max(top, i)
            ops.append({"k": "i", "i": i, "op": {"k": "set", "v": draw(st.integers(-3, 30))}})
        script.append([t, ops])
    b_script = draw(gen.int_script(start, end - 1, max_size=5)) if use_b else None
    # passive(b) only for the dynamic list (a node with children, as for dictionaries); a fixed-size list map is unrolled and
    # the marker then applies to each copy's own input, which the property says nothing about
    b_passive = use_b and n == 0 and draw(st.integers(0, 2)) == 0
    return {"kind": "tsl", "start": start, "end": end, "F": F, "n": n, "use_key": use_key, "use_b": use_b, "b_passive": b_passive,
            "script": script, "b_script": b_script, "flags": sorted(flags)}


@st.composite
def keys_case(draw, tier):
    """map_(F, d, __keys__=ks): the lifecycle key set is given explicitly, so a key can be live while no dictionary holds an
    element for it (the child's input is then unbound), get its element later, lose it again. F has a node that is active
    from the start of the child (a start-relative source), so each instance produces output in its creation cycle."""
    big = tier == "thorough"
    start = draw(st.sampled_from([0, 0, 3]))
    horizon = draw(st.integers(5, 24 if big else 14))
    end = start + horizon
    nk = draw(st.integers(2, 4))
    live, dset = set(), set()
    ks_script, d_script = [], []
    for t in range(start, end):
        kops, dops = [], []
        for k in range(nk):
            r = draw(st.integers(0, 9))
            if r == 0 and k not in live:
                kops.append(["add", k]); live.add(k)
            elif r == 1 and k in live and t > start:
                kops.append(["rem", k]); live.discard(k)
            r = draw(st.integers(0, 7))
            if r in (0, 1):
                dops.append(["set", k, draw(st.integers(1, 40))]); dset.add(k)
            elif r == 2 and k in dset:
                dops.append(["erase", k]); dset.discard(k)
        if t == start and not kops:
            kops.append(["add", 0]); live.add(0)
        if kops:
            ks_script.append([t, [{"k": "S", "ops": kops}]])
        if dops:
            d_script.append([t, [{"k": "D", "ops": dops}]])
    body = [{"id": "is", "op": "src", "schema": "TS[int]", "rel": True, "script": [[r_, [{"k": "set", "v": 100 + r_}]] for r_ in sorted(draw(st.sets(st.integers(0, 4), min_size=1, max_size=2)) | {0})]},
            {"id": "b0", "op": "node", "ins": ["is", {"arg": 0}], "valid": [0], "out": "TS[int]", "fn": draw(st.sampled_from(["sum", "acc"])), "coef": [1, 3], "log_inputs": False}]
    F = {"params": ["TS[int]"], "names": ["x"], "out": "TS[int]", "stmts": body, "ret": "b0"}
    return {"kind": "keys", "start": start, "end": end, "F": F, "ks": ks_script, "d": d_script}


@st.composite
def ref_case(draw, tier):
    """map_(F, if_then_else(c, dA, dB)): the multiplexed dictionary arrives through a reference that is re-pointed while the run
    is going. Both dictionaries get the same keys in the same order (so children may survive the switch); F is stateless, and
    the map output's full value is compared with F applied to the currently selected dictionary at every cycle."""
    big = tier == "thorough"
    start = 0
    horizon = draw(st.integers(5, 24 if big else 14))
    nk = draw(st.integers(1, 5))
    scripts = {}
    for name, base in (("dA", 0), ("dB", 100)):
        sc = [[start, [{"k": "D", "ops": [["set", k, base + k] for k in range(1, nk + 1)]}]]]
        for t in range(start + 1, start + horizon):
            ks = draw(st.lists(st.integers(1, nk), unique=True, max_size=2)) if draw(st.integers(0, 2)) == 0 else []
            if ks:
                sc.append([t, [{"k": "D", "ops": [["set", k, base + 10 * t + k] for k in ks]}]])
        scripts[name] = sc
    c = [[t, [{"k": "set", "v": draw(st.booleans())}]] for t in draw(gen.time_set(start, start + horizon - 1, 1, 6))]
    return {"kind": "ref", "start": start, "end": start + horizon, "dA": scripts["dA"], "dB": scripts["dB"], "c": c,
            "coef": draw(st.integers(1, 3)), "bias": draw(st.integers(0, 5))}


def strategy(tier):
    return st.one_of(case(tier), case(tier), case(tier), nested_case(tier), tsl_case(tier), keys_case(tier), ref_case(tier))


def check_ref(case, ctx) -> Result:
    res = Result()
    start, end = case["start"], case["end"]
    F = {"params": ["TS[int]"], "names": ["x"], "out": "TS[int]", "ret": "f", "stmts": [
        {"id": "f", "op": "node", "ins": [{"arg": 0}], "out": "TS[int]", "fn": "sum", "coef": [case["coef"]], "bias": case["bias"], "log_inputs": False}]}
    stmts = [{"id": "c", "op": "src", "schema": "TS[bool]", "script": case["c"]},
             {"id": "dA", "op": "src", "schema": "TSD[int,TS[int]]", "script": case["dA"]},
             {"id": "dB", "op": "src", "schema": "TSD[int,TS[int]]", "script": case["dB"]},
             {"id": "clk", "op": "src", "schema": "TS[int]", "script": [[t, [{"k": "set", "v": t}]] for t in range(start, end)]},
             {"id": "sel", "op": "op", "name": "if_then_else", "args": [{"ts": "c"}, {"ts": "dA"}, {"ts": "dB"}], "has_out": True},
             {"id": "m", "op": "op", "name": "map_", "args": [{"fn": "F"}, {"ts": "sel"}], "has_out": True},
             {"id": "rec", "op": "node", "ins": ["m", "clk"], "deep": True, "valid": []}]
    resp = ctx.run({"start": start, "end": end, "stmts": stmts, "subs": {"F": F}})
    if resp.get("crash"):
        res.violations.append(Viol("engine_crash", f"map_ over a re-pointed dictionary: worker died {resp.get('signal')} {resp.get('stderr', '')[-500:]}"))
        return res
    if not resp.get("built"):
        raise Rejected(f"C10 generator produced a re-pointed-dictionary program the tree rejects: {resp.get('error')}")
    feats = {"dictionary_through_reference": True}
    if resp.get("error"):
        res.violations.append(Viol("run_failed", f"map_ over a re-pointed dictionary threw: {resp['error']}", feats))
        return res
    got, got_mod = {}, {}
    for d in Trace(resp["trace"]).evals_of("rec", "r"):
        i = d["ins"][0]
        got[d["t"]] = {k: c_.get("val") for k, c_ in ((i.get("acc") or {}).get("ch") or []) if c_.get("v")} if i.get("v") else {}
        if i.get("m"):
            got_mod[d["t"]] = {k for k, _ in ((i.get("dv") or {}).get("modified") or [])}
    cur = {"dA": {}, "dB": {}}
    ops_at = {n: {t: ops for t, ops in case[n]} for n in ("dA", "dB")}
    c_at = {t: ops[-1]["v"] for t, ops in case["c"]}
    sel, flips, solo = None, 0, False
    for t in range(start, end):
        ticked = {"dA": set(), "dB": set()}
        for n in ("dA", "dB"):
            for op in ops_at[n].get(t, []):
                for _, k, v in op["ops"]:
                    cur[n][k] = v
                    ticked[n].add(k)
        if t in c_at:
            new = "dA" if c_at[t] else "dB"
            if sel is not None and new != sel:
                flips += 1
                if not ticked[new] or len(ticked[new]) < len(cur[new]):
                    solo = True
            sel = new
        exp = {k: case["coef"] * v + case["bias"] for k, v in cur[sel].items()} if sel else {}
        if t not in got:
            res.violations.append(Viol("run_failed", f"t={t}: the recorder bound to the map output and a metronome did not run", feats))
            break
        if got[t] != exp:
            bad = sorted(k for k in set(exp) | set(got[t]) if exp.get(k) != got[t].get(k))
            res.violations.append(Viol("key_stream_value_differs", f"t={t}: map_(F, if_then_else(c, dA, dB)) holds {got[t]} but F over the selected dictionary ({sel}: {cur[sel] if sel else None}) gives {exp} (keys {bad}); selection history {sorted(c_at.items())[:8]}", feats))
            break
        if sel and ticked[sel] and not ticked[sel] <= got_mod.get(t, set()):
            res.violations.append(Viol("key_tick_missing", f"t={t}: elements {sorted(ticked[sel])} of the selected dictionary {sel} ticked but the map output's delta lists only {sorted(got_mod.get(t, set()))}", feats))
            break
    res.nontrivial = flips >= 1 and solo
    res.labels.append("dictionary_through_reference")
    if flips:
        res.labels.append("reference_repointed")
    res.summary = {"flips": flips}
    return res


def check_keys(case, ctx) -> Result:
    res = Result()
    start, end, F = case["start"], case["end"], case["F"]
    stmts = [{"id": "d", "op": "src", "schema": "TSD[int,TS[int]]", "script": case["d"]},
             {"id": "ks", "op": "src", "schema": "TSS[int]", "script": case["ks"]},
             {"id": "m", "op": "op", "name": "map_", "args": [{"fn": "F"}, {"ts": "d"}, {"ts": "ks", "name": "__keys__"}], "has_out": True},
             {"id": "rec", "op": "node", "ins": ["m"], "deep": True, "valid": []}]
    resp = ctx.run({"start": start, "end": end, "stmts": stmts, "subs": {"F": F}})
    if resp.get("crash"):
        res.violations.append(Viol("engine_crash", f"map_ with __keys__: worker died {resp.get('signal')} {resp.get('stderr', '')[-500:]}"))
        return res
    if not resp.get("built"):
        raise Rejected(f"C10 generator produced a __keys__ program the tree rejects: {resp.get('error')}")
    feats = {"explicit_keys": True}
    if resp.get("error"):
        res.violations.append(Viol("run_failed", f"map_ with __keys__ threw: {resp['error']}", feats))
        return res
    # key lifetimes from the explicit key set; element history of each key from the dictionary script
    lts, live = [], {}
    for t, ops in case["ks"]:
        for op in ops:
            for how, k in op["ops"]:
                if how == "add" and k not in live:
                    live[k] = t
                elif how == "rem" and k in live:
                    if live[k] < t:
                        lts.append((k, live.pop(k), t))
                    else:
                        live.pop(k)
    lts += [(k, ta, None) for k, ta in sorted(live.items())]
    elem = {}     # key -> [(t, value | None)]
    for t, ops in case["d"]:
        for op in ops:
            for o in op["ops"]:
                elem.setdefault(o[1], []).append((t, o[2] if o[0] == "set" else None))
    unbound_at_birth = False
    exp_mod, exp_rem = {}, {}
    for (k, ta, trm) in lts:
        hi = trm if trm is not None else end
        hist = elem.get(k, [])
        cur = [v for (t, v) in hist if t <= ta]
        sc = ([[ta, [{"k": "set", "v": cur[-1]}]]] if cur and cur[-1] is not None else []) + \
             [[t, [{"k": "set", "v": v} if v is not None else {"k": "inval"}]] for (t, v) in hist if ta < t < hi]
        if not (cur and cur[-1] is not None):
            unbound_at_birth = True
        solo = [{"id": "x0", "op": "src", "schema": "TS[int]", "script": sc}, {"id": "f0", "op": "inline", "sub": "F", "ins": ["x0"]}, {"id": "r0", "op": "node", "ins": ["f0"]}]
        sresp = ctx.run({"start": ta, "end": hi, "stmts": solo, "subs": {"F": F}})
        if sresp.get("crash") or not sresp.get("built") or sresp.get("error"):
            raise HarnessError(f"C10 __keys__ solo program failed: {sresp.get('error') or sresp.get('signal')}")
        stream = [(t, v) for (t, v, _) in Trace(sresp["trace"]).stream("r0") if ta <= t < hi]
        for t, v in stream:
            exp_mod.setdefault(t, {})[k] = v
        if trm is not None and stream and trm < end:
            exp_rem.setdefault(trm, set()).add(k)
    got_mod, got_rem = {}, {}
    for d in Trace(resp["trace"]).evals_of("rec", "r"):
        i = d["ins"][0]
        if not i["m"]:
            continue
        delta = i.get("dv") or {}
        if delta.get("modified"):
            got_mod[d["t"]] = {k: v for k, v in delta["modified"]}
        if delta.get("removed"):
            got_rem[d["t"]] = set(delta["removed"])
    for t in sorted(set(exp_mod) | set(got_mod)):
        e, g = exp_mod.get(t, {}), got_mod.get(t, {})
        if e != g:
            missing = {k: v for k, v in e.items() if k not in g}
            wrong = {k: (g[k], e[k]) for k in e if k in g and g[k] != e[k]}
            clause = "key_stream_value_differs" if wrong else "key_tick_missing" if missing else "key_tick_unexpected"
            res.violations.append(Viol(clause, f"t={t}: map_(F, d, __keys__=ks) output modified {g}, running F alone per key lifetime {[(k, a, b) for k, a, b in lts][:8]} gives {e}", feats))
            break
    else:
        for t in sorted(set(exp_rem) | set(got_rem)):
            if exp_rem.get(t, set()) != got_rem.get(t, set()):
                res.violations.append(Viol("removed_keys_differ", f"t={t}: map output removed {sorted(got_rem.get(t, set()))}, expected {sorted(exp_rem.get(t, set()))}", feats))
                break
    res.nontrivial = unbound_at_birth and len(lts) >= 2
    res.labels.append("explicit_key_set")
    if unbound_at_birth:
        res.labels.append("key_live_without_element")
    res.summary = {"lifetimes": lts[:10]}
    return res


def norm_dd(d):
    """canonical form of a TSD[int,TS[int]] delta dump"""
    d = d or {}
    return (tuple(sorted(d.get("removed") or [])), tuple(sorted((k, v) for k, v in (d.get("modified") or []))))


def check_nested(case, ctx) -> Result:
    res = Result()
    start, end, F = case["start"], case["end"], case["F"]
    inner_schema = ("TSD", "int", ("TS", "int"))
    # outer key lifetimes and the element operations that fall into each of them
    m = tm.M(("TSD", "int", inner_schema))
    live, lts = {}, []
    for t, ops in case["script"]:
        pre = set(m.value)
        m.begin_cycle()
        per_key = {}
        for op in ops:
            m.apply(op, t)
            for o in op["ops"]:
                if o[0] == "at":
                    per_key.setdefault(o[1], []).append(o[2])
        post = set(m.value)
        for k in sorted(pre - post):
            lt = live.pop(k)
            lt[2] = t
            lts.append(lt)
        for k in sorted(post - pre):
            live[k] = [k, t, None, []]
        for k in post:
            if k in per_key:
                live[k][3].append([t, per_key[k]])
    lts += [lt for _, lt in sorted(live.items())]
    FO = {"params": ["TSD[int,TS[int]]"], "names": ["x"], "out": "TSD[int,TS[int]]", "ret": "im",
          "stmts": [{"id": "im", "op": "op", "name": "map_", "args": [{"fn": "F"}, {"ts": {"arg": 0}}], "has_out": True}]}
    prog = {"start": start, "end": end, "subs": {"F": F, "FO": FO}, "stmts": [
        {"id": "d", "op": "src", "schema": "TSD[int,TSD[int,TS[int]]]", "script": case["script"]},
        {"id": "m", "op": "op", "name": "map_", "args": [{"fn": "FO"}, {"ts": "d"}], "has_out": True},
        {"id": "rec", "op": "node", "ins": ["m"], "deep": True, "valid": []}]}
    resp = ctx.run(prog)
    if resp.get("crash"):
        res.violations.append(Viol("engine_crash", f"nested map_ run: worker died {resp.get('signal')} {resp.get('stderr', '')[-500:]}"))
        return res
    if not resp.get("built"):
        raise Rejected(f"C10 generator produced a nested-map program the tree rejects: {resp.get('error')}")
    if resp.get("error"):
        res.violations.append(Viol("run_failed", f"nested map_ run threw: {resp['error']}", {"nested_map": True}))
        return res
    solo = []
    for i, (k, ta, trm, xs) in enumerate(lts):
        solo += [{"id": f"x{i}", "op": "src", "schema": "TSD[int,TS[int]]", "script": xs},
                 {"id": f"f{i}", "op": "op", "name": "map_", "args": [{"fn": "F"}, {"ts": f"x{i}"}], "has_out": True},
                 {"id": f"r{i}", "op": "node", "ins": [f"f{i}"], "deep": True, "valid": []}]
    exp = {}      # (t, outer key) -> normalised inner delta
    if lts:
        sresp = ctx.run({"start": start, "end": end, "stmts": solo, "subs": {"F": F}})
        if sresp.get("crash") or not sresp.get("built") or sresp.get("error"):
            raise HarnessError(f"C10 nested solo program failed: {sresp.get('error') or sresp.get('signal')}")
        st_ = Trace(sresp["trace"])
        for i, (k, ta, trm, xs) in enumerate(lts):
            hi = trm if trm is not None else end
            for d in st_.evals_of(f"r{i}", "r"):
                inp = d["ins"][0]
                if inp["m"] and ta <= d["t"] < hi:
                    exp[(d["t"], k)] = norm_dd(inp.get("dv"))
    got, got_removed = {}, {}
    for d in Trace(resp["trace"]).evals_of("rec", "r"):
        inp = d["ins"][0]
        if not inp["m"]:
            continue
        delta = inp.get("dv") or {}
        for k, cd in delta.get("modified") or []:
            got[(d["t"], k)] = norm_dd(cd)
        if delta.get("removed"):
            got_removed[d["t"]] = set(delta["removed"])
    feats = {"nested_map": True, "flags": ",".join(case["flags"])}
    for key in sorted(set(exp) | set(got)):
        if exp.get(key) != got.get(key):
            clause = "key_tick_missing" if key not in got else "key_tick_unexpected" if key not in exp else "key_stream_value_differs"
            res.violations.append(Viol(clause, f"t={key[0]} outer key {key[1]}: the nested map's element delta is {got.get(key)}, the inner map_ run alone on that key's element stream gives {exp.get(key)}", feats))
            break
    else:
        for i, (k, ta, trm, xs) in enumerate(lts):
            produced = any(kk == k and ta <= t < (trm if trm is not None else end) for (t, kk) in exp)
            if trm is not None and trm < end and produced and k not in got_removed.get(trm, set()):
                res.violations.append(Viol("removed_keys_differ", f"t={trm}: outer key {k} left the source dictionary after its instance had produced output but the map output did not remove it (removed: {sorted(got_removed.get(trm, set()))})", feats))
                break
        ended = {(trm, k) for (k, ta, trm, xs) in lts if trm is not None}
        for t, ks in sorted(got_removed.items()):
            bad = [k for k in ks if (t, k) not in ended]
            if bad:
                res.violations.append(Viol("removed_keys_differ", f"t={t}: the map output removed outer keys {bad} that are still in the source dictionary", feats))
                break
    readd = len({k for k, *_ in lts}) < len(lts)
    inner_removals = any(o[0] == "erase" for (_, _, _, xs) in lts for _, ops in xs for op in ops for o in op["ops"])
    res.nontrivial = bool(lts) and (readd or inner_removals) and bool(case["flags"])
    res.labels.append("nested_map")
    if readd:
        res.labels.append("re_add")
    if inner_removals:
        res.labels.append("inner_key_removed")
    res.labels += case["flags"]
    res.summary = {"lifetimes": [(k, ta, trm) for k, ta, trm, _ in lts][:12], "flags": case["flags"]}
    return res


def check_tsl(case, ctx) -> Result:
    res = Result()
    start, end, F, n = case["start"], case["end"], case["F"], case["n"]
    # per index: appearance time (fixed list: the start; dynamic list: the cycle in which the list grew past it) and ticks
    xs, appear, length = {}, {}, n
    if n:
        appear = {i: start for i in range(n)}
    for t, ops in case["script"]:
        for op in ops:
            xs.setdefault(op["i"], []).append((t, op["op"]["v"]))
            if not n and op["i"] >= length:
                for j in range(length, op["i"] + 1):
                    appear[j] = t
                length = op["i"] + 1
    args = [{"fn": "F"}, {"ts": "d"}] + ([{"ts": {"r": "bsrc", "passive": True} if case.get("b_passive") else "bsrc"}] if case["use_b"] else [])
    stmts = [{"id": "d", "op": "src", "schema": f"TSL[TS[int],{n}]", "script": case["script"]}]
    if case["use_b"]:
        stmts.append({"id": "bsrc", "op": "src", "schema": "TS[int]", "script": case["b_script"]})
    stmts += [{"id": "m", "op": "op", "name": "map_", "args": args, "has_out": True},
              {"id": "rec", "op": "node", "ins": ["m"], "deep": True, "valid": []}]
    resp = ctx.run({"start": start, "end": end, "stmts": stmts, "subs": {"F": F}})
    if resp.get("crash"):
        res.violations.append(Viol("engine_crash", f"list map_ run: worker died {resp.get('signal')} {resp.get('stderr', '')[-500:]}"))
        return res
    if not resp.get("built"):
        raise Rejected(f"C10 generator produced a list-map program the tree rejects: {resp.get('error')}")
    feats = {"list_map": "fixed" if n else "dynamic", "use_key": case["use_key"], "use_b": case["use_b"], "flags": ",".join(case["flags"])}
    if resp.get("error"):
        res.violations.append(Viol("run_failed", f"list map_ run threw: {resp['error']}", feats))
        return res
    b_ticks = [(t, ops[-1]["v"]) for t, ops in (case["b_script"] or [])]
    solo, idxs = [], sorted(appear)
    for i in idxs:
        ta = appear[i]
        ins = []
        if case["use_key"]:
            solo.append({"id": f"k{i}", "op": "src", "schema": "TS[int]", "script": [[ta, [{"k": "set", "v": i}]]]})
            ins.append(f"k{i}")
        solo.append({"id": f"x{i}", "op": "src", "schema": "TS[int]", "script": [[t, [{"k": "set", "v": v}]] for t, v in xs.get(i, [])]})
        ins.append(f"x{i}")
        if case["use_b"]:
            cur = [v for t, v in b_ticks if t <= ta]
            sc = ([[ta, [{"k": "set", "v": cur[-1]}]]] if cur else []) + [[t, [{"k": "set", "v": v}]] for t, v in b_ticks if ta < t < end]
            solo.append({"id": f"b{i}", "op": "src", "schema": "TS[int]", "script": sc})
            ins.append(f"b{i}")
        solo.append({"id": f"f{i}", "op": "inline", "sub": "F", "ins": ins})
        solo.append({"id": f"r{i}", "op": "node", "ins": [f"f{i}"]})
    exp = {}
    if idxs:
        sresp = ctx.run({"start": start, "end": end, "stmts": solo, "subs": {"F": F}})
        if sresp.get("crash") or not sresp.get("built") or sresp.get("error"):
            raise HarnessError(f"C10 list-map solo program failed: {sresp.get('error') or sresp.get('signal')}")
        st_ = Trace(sresp["trace"])
        for i in idxs:
            exp[i] = [(t, v) for (t, v, _) in st_.stream(f"r{i}")]
    got, last_len = {}, 0
    for d in Trace(resp["trace"]).evals_of("rec", "r"):
        inp = d["ins"][0]
        ch = inp.get("ch") or []
        last_len = max(last_len, len(ch))
        if not inp["m"]:
            continue
        for i, c in enumerate(ch):
            if c.get("m"):
                got.setdefault(i, []).append((d["t"], c.get("val")))
    for i in sorted(set(exp) | set(got)):
        e, g = exp.get(i, []), got.get(i, [])
        if e != g:
            clause = "key_tick_missing" if len(g) < len(e) and g == e[:len(g)] else "key_stream_value_differs" if len(g) == len(e) else "key_tick_unexpected" if len(g) > len(e) else "key_stream_value_differs"
            res.violations.append(Viol(clause, f"list map_ ({'fixed ' + str(n) if n else 'dynamic'}): output element {i} ticked {g[:12]}, running F alone on element {i}'s stream {xs.get(i, [])[:12]} (appeared at {appear.get(i)}) gives {e[:12]}", feats))
            break
    starts = sum(1 for e in resp["trace"] if e[0] == "gs" and isinstance(e[1], str) and e[1].count("/") == 1)
    stops = 0
    for e in resp["trace"]:
        if e[0] == "phase" and e[1] == "run_returned":
            break
        if e[0] == "gp" and isinstance(e[1], str) and e[1].count("/") == 1:
            stops += 1
    if not n:
        if starts != len(idxs):
            res.violations.append(Viol("child_start_count", f"{starts} child graphs were started for a dynamic list that grew to {len(idxs)} elements", feats))
        if stops != starts:
            res.violations.append(Viol("child_stop_count", f"{starts} child graphs started but only {stops} had been stopped when run() returned", feats))
    holes = [i for i in idxs if i not in xs]
    late = [i for i in idxs if i in xs and xs[i][0][0] > appear[i]]
    res.nontrivial = (not n and bool(holes or late) and bool(case["flags"])) or len(idxs) >= 9
    res.labels.append("list_map_fixed" if n else "list_map_dynamic")
    if holes:
        res.labels.append("list_hole_never_written")
    if late:
        res.labels.append("list_hole_written_later")
    if len(idxs) >= 9:
        res.labels.append("nine_plus_live")
    if len(idxs) >= 65:
        res.labels.append("sixty_five_plus_live")
    res.labels += case["flags"]
    if case["use_key"]:
        res.labels.append("key_consuming")
    if case["use_b"]:
        res.labels.append("broadcast")
    if case.get("b_passive"):
        res.labels.append("passive_broadcast")
    res.summary = {"indices": len(idxs), "holes": holes[:8], "flags": case["flags"]}
    return res


def lifetimes(script, end):
    """[(key, t_appear, t_remove_or_None, [(t, value)...])] from the net effect of each scripted cycle."""
    m = tm.M(("TSD", "int", ("TS", "int")))
    live = {}
    out = []
    for t, ops in script:
        pre = set(m.value)
        m.begin_cycle()
        for op in ops:
            m.apply(op, t)
        post = set(m.value)
        for k in sorted(pre - post):
            lt = live.pop(k)
            lt[2] = t
            out.append(lt)
        for k in sorted(post - pre):
            live[k] = [k, t, None, []]
        for k in post:
            c = m.value[k]
            if c.written:
                live[k][3].append((t, c.value))
    for k, lt in sorted(live.items()):
        out.append(lt)
    return out


def check(case, ctx) -> Result:
    if case.get("kind") == "nested":
        return check_nested(case, ctx)
    if case.get("kind") == "tsl":
        return check_tsl(case, ctx)
    if case.get("kind") == "keys":
        return check_keys(case, ctx)
    if case.get("kind") == "ref":
        return check_ref(case, ctx)
    res = Result()
    start, end = case["start"], case["end"]
    F = case["F"]
    lts = lifetimes(case["script"], end)
    d2 = case.get("d2")
    d2_script, y_ticks = None, {}
    if d2:
        # derive the second dictionary's history from the first: key k (if k % skip_mod != 0) enters d2 `lag` cycles after
        # it entered d1 with value 100+k, is updated whenever d1's element ticks later, and is erased with d1's key
        times = sorted(t for t, _ in case["script"])
        by_t = {}
        for i, (k, ta, trm, xs) in enumerate(lts):
            if k % d2["skip_mod"] == 0:
                continue
            later = [t for t in times if t >= ta and (trm is None or t < trm)]
            if len(later) <= d2["lag"]:
                continue
            t_in = later[d2["lag"]]
            ys = [(t_in, 100 + k)] + [(t, 200 + v) for (t, v) in xs if t > t_in]
            if d2.get("solo_ticks"):
                xt = {t for t, _ in xs}
                ys = sorted(ys + [(t, 400 + k + j) for j, t in enumerate(later) if t > t_in and t not in xt and j % 2 == 0])
            t_out = t_re = None
            la, ra = d2.get("leave_after", 0), d2.get("readd_after", 0)
            if la and len(later) > d2["lag"] + la:
                t_out = later[d2["lag"] + la]
                if ra and len(later) > d2["lag"] + la + ra:
                    t_re = later[d2["lag"] + la + ra]
                ys = [(t, v) for (t, v) in ys if t < t_out] + [(t_out, None)] + \
                     ([(t_re, 300 + k)] + [(t, 200 + v) for (t, v) in xs if t > t_re] if t_re is not None else [])
            y_ticks[i] = ys
            for t, v in ys:
                by_t.setdefault(t, []).append(["set", k, v] if v is not None else ["erase", k])
            if trm is not None and not (t_out is not None and t_re is None):
                by_t.setdefault(trm, []).append(["erase", k])
        d2_script = [[t, [{"k": "D", "ops": ops}]] for t, ops in sorted(by_t.items())]
    subs = {"F": F}
    fname = "F"
    if d2:
        n = len(F["params"])
        subs["F2"] = {"params": F["params"] + ["TS[int]"], "names": F["names"] + ["yy"], "out": "TS[int]", "ret": "comb", "stmts": [
            {"id": "inner", "op": "inline", "sub": "F", "ins": [{"arg": j} for j in range(n)]},
            {"id": "comb", "op": "node", "ins": ["inner", {"arg": n, "passive": True} if d2.get("yy_passive") else {"arg": n}], "out": "TS[int]",
             "fn": "sum", "valid": [0], "coef": [1, 1], "log_inputs": False}]}
        fname = "F2"
    args = [{"fn": fname}, {"ts": "d"}] + ([{"ts": {"r": "bsrc", "passive": True} if case.get("b_passive") else "bsrc"}] if case["use_b"] else []) + ([{"ts": "d2"}] if d2 else [])
    stmts = [{"id": "d", "op": "src", "schema": "TSD[int,TS[int]]", "script": case["script"]}]
    if d2:
        stmts.append({"id": "d2", "op": "src", "schema": "TSD[int,TS[int]]", "script": d2_script})
    if case["use_b"]:
        stmts.append({"id": "bsrc", "op": "src", "schema": "TS[int]", "script": case["b_script"]})
    stmts += [{"id": "m", "op": "op", "name": "map_", "args": args, "has_out": True},
              {"id": "rec", "op": "node", "ins": ["m"], "deep": True, "valid": []}]
    prog = {"start": start, "end": end, "stmts": stmts, "subs": subs}
    resp = ctx.run(prog)
    if resp.get("crash"):
        res.violations.append(Viol("engine_crash", f"map_ run: worker died {resp.get('signal')} {resp.get('stderr', '')[-500:]}"))
        return res
    if not resp.get("built"):
        raise Rejected(f"C10 generator produced a program the tree rejects: {resp.get('error')}")
    if resp.get("error"):
        res.violations.append(Viol("run_failed", f"map_ run threw: {resp['error']}"))
        return res
    # ---- solo program: one inlined copy of F per (key, lifetime)
    b_ticks = [(t, ops[-1]["v"]) for t, ops in (case["b_script"] or [])]
    solo = []
    for i, (k, ta, trm, xs) in enumerate(lts):
        hi = trm if trm is not None else end
        ins = []
        if case["use_key"]:
            solo.append({"id": f"k{i}", "op": "src", "schema": "TS[int]", "script": [[ta, [{"k": "set", "v": k}]]]})
            ins.append(f"k{i}")
        solo.append({"id": f"x{i}", "op": "src", "schema": "TS[int]", "script": [[t, [{"k": "set", "v": v}]] for t, v in xs if ta <= t < hi]})
        ins.append(f"x{i}")
        if case["use_b"]:
            cur = [v for t, v in b_ticks if t <= ta]
            sc = ([[ta, [{"k": "set", "v": cur[-1]}]]] if cur else []) + [[t, [{"k": "set", "v": v}]] for t, v in b_ticks if ta < t < hi]
            solo.append({"id": f"b{i}", "op": "src", "schema": "TS[int]", "script": sc})
            ins.append(f"b{i}")
        if d2:
            # the element leaving the second dictionary = the stand-alone argument going invalid
            solo.append({"id": f"y{i}", "op": "src", "schema": "TS[int]",
                         "script": [[t, [{"k": "set", "v": v} if v is not None else {"k": "inval"}]] for t, v in y_ticks.get(i, []) if ta <= t < hi]})
            ins.append(f"y{i}")
        solo.append({"id": f"f{i}", "op": "inline", "sub": fname, "ins": ins})
        solo.append({"id": f"r{i}", "op": "node", "ins": [f"f{i}"]})
    exp_streams = {}
    if lts:
        sresp = ctx.run({"start": start, "end": end, "stmts": solo, "subs": subs})
        if sresp.get("crash") or not sresp.get("built") or sresp.get("error"):
            raise HarnessError(f"C10 solo program failed: {sresp.get('error') or sresp.get('signal')}")
        st_ = Trace(sresp["trace"])
        for i, (k, ta, trm, xs) in enumerate(lts):
            hi = trm if trm is not None else end
            exp_streams[i] = [(t, v) for (t, v, _) in st_.stream(f"r{i}") if ta <= t < hi]
    # ---- expected ticks of the map output
    exp_mod = {}    # t -> {k: v}
    exp_rem = {}    # t -> set(k)
    for i, (k, ta, trm, xs) in enumerate(lts):
        for t, v in exp_streams[i]:
            exp_mod.setdefault(t, {})[k] = v
        if trm is not None and exp_streams[i] and trm < end:
            exp_rem.setdefault(trm, set()).add(k)
    tr = Trace(resp["trace"])
    got_mod, got_rem, got_val = {}, {}, {}
    schema = ("TSD", "int", ("TS", "int"))
    for d in tr.evals_of("rec", "r"):
        i = d["ins"][0]
        if not i["m"]:
            continue
        delta = i.get("dv") or {"removed": [], "modified": []}
        if delta.get("modified"):
            got_mod[d["t"]] = {k: v for k, v in delta["modified"]}
        if delta.get("removed"):
            got_rem[d["t"]] = set(delta["removed"])
        got_val[d["t"]] = {k: v for k, v in (tree_value(i, schema) or []) if v is not None}
    feats = {"use_key": case["use_key"], "use_b": case["use_b"], "flags": ",".join(case["flags"])}
    for t in sorted(set(exp_mod) | set(got_mod)):
        e, g = exp_mod.get(t, {}), got_mod.get(t, {})
        if e != g:
            extra = {k: v for k, v in g.items() if k not in e}
            missing = {k: v for k, v in e.items() if k not in g}
            wrong = {k: (g[k], e[k]) for k in e if k in g and g[k] != e[k]}
            clause = "key_stream_value_differs" if wrong else "key_tick_missing" if missing else "key_tick_unexpected"
            res.violations.append(Viol(clause, f"t={t}: map output modified {g}, running F alone per key gives {e} (wrong={wrong}, missing={missing}, extra={extra})", feats))
            break
    else:
        for t in sorted(set(exp_rem) | set(got_rem)):
            if exp_rem.get(t, set()) != got_rem.get(t, set()):
                res.violations.append(Viol("removed_keys_differ", f"t={t}: map output removed {sorted(got_rem.get(t, set()))}, expected {sorted(exp_rem.get(t, set()))}", feats))
                break
        else:
            # full value at every observed tick: live keys whose instance has produced a value
            for t, gv in sorted(got_val.items()):
                ev = {}
                for i, (k, ta, trm, xs) in enumerate(lts):
                    if ta <= t and (trm is None or t < trm):
                        vals = [v for tt, v in exp_streams[i] if tt <= t]
                        if vals:
                            ev[k] = vals[-1]
                if gv != ev:
                    res.violations.append(Viol("output_key_set_or_value_wrong", f"t={t}: map output value {gv}, expected {ev}", feats))
                    break
    # ---- what a child node reads on its inputs is coherent (also for inputs bound "sampled" when the child was created):
    # modified <=> last_modified_time is this cycle, and a modified input is valid
    for e in resp["trace"]:
        if e[0] == "ev" and e[1] != "r" and len(e) > 6 and e[6]:
            bad = next((i for i in e[6] if isinstance(i, dict) and isinstance(i.get("m"), bool) and isinstance(i.get("lmt"), int) and
                        ((i["m"] and i["lmt"] != e[4]) or (not i["m"] and i["lmt"] == e[4]) or (i["m"] and not i.get("v")))), None)
            if bad is not None:
                res.violations.append(Viol("input_flags_incoherent", f"node {e[3]} in child {e[1]} at t={e[4]} reads an input with modified={bad['m']} valid={bad.get('v')} last_modified_time={bad['lmt']}", feats))
                break
    # ---- lifecycle: one child graph start per appearance, one stop per removal (and at the end)
    mnode = next((i for i, n in enumerate(resp["graph"]["nodes"]) if n.get("k") == "nested" or "map" in str(n.get("n", "")).lower()), None)
    starts = sum(1 for e in resp["trace"] if e[0] == "gs" and isinstance(e[1], str) and e[1].count("/") == 1)
    stops = 0
    for e in resp["trace"]:
        if e[0] == "phase" and e[1] == "run_returned":
            break
        if e[0] == "gp" and isinstance(e[1], str) and e[1].count("/") == 1:
            stops += 1
    if starts != len(lts):
        res.violations.append(Viol("child_start_count", f"{starts} child graphs were started for {len(lts)} key appearances", feats))
    if stops != starts:
        res.violations.append(Viol("child_stop_count", f"{starts} child graphs started but only {stops} had been stopped when run() returned", feats))
    readd = len({k for k, *_ in lts}) < len(lts)
    maxlive = 0
    for t, ops in case["script"]:
        maxlive = max(maxlive, sum(1 for (k, ta, trm, xs) in lts if ta <= t and (trm is None or t < trm)))
    res.nontrivial = (readd and bool(case["flags"])) or maxlive >= 9
    if readd:
        res.labels.append("re_add")
    if maxlive >= 9:
        res.labels.append("nine_plus_live")
    if maxlive >= 17:
        res.labels.append("seventeen_plus_live")
    if maxlive >= 65:
        res.labels.append("sixty_five_plus_live")
    res.labels += case["flags"]
    if case["use_key"]:
        res.labels.append("key_consuming")
    if case["use_b"]:
        res.labels.append("broadcast")
    if case.get("b_passive"):
        res.labels.append("passive_broadcast")
    if d2:
        res.labels.append("second_multiplexed_dict")
        if any(v is None for ys in y_ticks.values() for _, v in ys):
            res.labels.append("key_left_second_dict_only")
    res.summary = {"lifetimes": [(k, ta, trm) for k, ta, trm, _ in lts][:12], "flags": case["flags"]}
    return res
