"""C04 — modified / valid / last-modified-time tell the truth for producers and consumers."""
from __future__ import annotations

import json

from hypothesis import strategies as st

from hgv import tsmodel as tm
from hgv.runner import Result, Viol
from hgv.trace import Trace
from hgv.worker import HarnessError, Rejected
from props.c05 import norm_delta, tuple_schema

ID = "C04"
RULE = ("A scripted writer over a random schema (TS, SIGNAL, TSB, TSL, TSS, TSD, TSW and nestings to depth 3) follows a generated write "
        "history: several writes in one cycle, gaps, child-only writes, explicit invalidations of scalar leaves; 1-4 consumers are "
        "bound to the whole output, to a child path, and from inside a nested child graph; a metronome forces a cycle at every "
        "smallest step of the window so silent cycles are observed. After every cycle the four facts (modified, valid, "
        "last-modified-time, value) and the per-tick delta are read at every node of the producer's tree and of every consumer's "
        "view and compared with the write history and with each other. Non-trivial = nesting depth >= 2 with a child-only write, "
        ">= 2 consumers, and a silent cycle after a write. Distinct = canonical JSON of the case.")
ASSUMPTIONS = ["same-cycle erase + re-write of one dictionary key is not generated here (known finding F6, owned by C05)",
               "tick-window validity before the minimum count is owned by C05 (F3); here a window's valid flag is only required to agree between producer and consumers",
               "an explicit invalidation is not a write: last-modified-time is asserted only while valid"]


def examples(tier):
    return 8000 if tier == "quick" else 100000


def budget_s(tier):
    return 75 if tier == "quick" else 600


@st.composite
def bundle_schema(draw, depth):
    """bundles of scalars and bundles (optionally as list / dictionary elements): the positions whole-value writes populate"""
    def tsb(d):
        fields = []
        for i in range(draw(st.integers(1, 3))):
            fields.append((f"f{i}", tsb(d - 1) if d > 1 and draw(st.integers(0, 2)) == 0 else
                           ("TSS", "int") if draw(st.integers(0, 4)) == 0 else
                           ("TS", draw(st.sampled_from(["int", "int", "str", "bool"])))))
        return ("TSB", fields)
    b = tsb(depth - 1)
    wrap = draw(st.sampled_from(["none", "none", "none", "TSL", "TSD", "outer"]))
    if wrap == "TSL":
        return ("TSL", b, draw(st.integers(1, 3)))
    if wrap == "TSD":
        return ("TSD", "int", b)
    if wrap == "outer":
        return ("TSB", [("g0", ("TS", "int")), ("g1", b)])
    return b


@st.composite
def case(draw, tier):
    big = tier == "thorough"
    kind = draw(st.integers(0, 9))
    schema = ("SIGNAL",) if kind == 0 else ("TS", draw(st.sampled_from(["int", "str", "bool"]))) if kind == 1 else \
        draw(bundle_schema(3)) if kind in (2, 3) else ("TSD", "int", ("TS", "int")) if kind == 4 else draw(tm.schemas(3))
    start = draw(st.sampled_from([0, 0, 2, 40000]))
    horizon = draw(st.integers(3, 24 if big else 10))
    opts = {"cancel": True, "multi": True, "no_rewrite": True, "inval": draw(st.booleans()), "inval_composite": True, "keys": draw(st.sampled_from([4, 8])),
            "whole": True, "whole_dict": True}
    script = draw(tm.history(schema, start, horizon, opts, max_cycles=10 if big else 6))
    cons = []
    if kind == 4:
        cons.append({"kind": "keyset"})
    for _ in range(draw(st.integers(1, 3))):
        where = draw(st.sampled_from(["root", "root", "child", "nested"]))
        if where == "child" and schema[0] in ("TSB", "TSL"):
            n = len(schema[1]) if schema[0] == "TSB" else schema[2]
            cons.append({"kind": "child", "path": [draw(st.integers(0, n - 1))]})
        elif where == "nested":
            cons.append({"kind": "nested"})
        elif schema[0] == "TSD" and draw(st.booleans()):
            cons.append({"kind": "keyset"})     # bound to the dictionary's key-set endpoint (what map_ / keys_ bind to)
        else:
            cons.append({"kind": "root"})
    return {"schema": schema, "script": script, "start": start, "end": start + horizon, "cons": cons}


def strategy(tier):
    return case(tier)


def sub_schema(schema, path):
    for i in path:
        schema = schema[1][i][1] if schema[0] == "TSB" else schema[1]
    return schema


def model_at(m, path):
    for i in path:
        m = m.value[i]
    return m


SOFT = []


def compare_tree(d, m, schema, t, where, out, is_consumer, root_invalidation):
    """d: endpoint dump (deep), m: model node (or None when the node does not exist in the model)."""
    k = schema[0]
    mod = m.modified() if m is not None else False
    feats = {"where": "consumer" if is_consumer else "producer", "kind": k}
    if d["m"] != mod:
        inval = m is not None and getattr(m, "invalidated_now", False)
        out.append(("modified_wrong", f"{where} at t={t}: modified reads {d['m']} but the script {'wrote' if mod else 'did not write'} this node in this cycle (valid={d['v']}, lmt={d['lmt']})",
                    dict(feats, invalidation_cycle=bool(inval), reads=d["m"])))
        return
    if "TSW" in tm.schema_kinds(schema):
        pass  # validity of tick windows (and of structures holding them): C05 / F3; producer-consumer agreement is still asserted
    elif m is not None:
        mv = m.is_valid()
        if d["v"] != mv:
            out.append(("valid_wrong", f"{where} at t={t}: valid reads {d['v']} but by the write history it is {mv}", dict(feats, reads=d["v"])))
            return
        if mv and d["lmt"] != m.last_modified():
            out.append(("last_modified_wrong", f"{where} at t={t}: last_modified_time reads {d['lmt']} but the latest write was at {m.last_modified()}", feats))
            return
    # a per-tick delta is readable only in the cycle that produced it
    dv = d.get("dv")
    if isinstance(dv, dict) and "exc" in dv:
        dv = None
    try:
        nd = norm_delta(dv, schema)
    except (TypeError, KeyError, ValueError, IndexError):
        nd = "not-a-delta"
    if not mod and k in ("TS", "TSS", "TSD", "TSW") and nd is not None:
        item = ("stale_delta_readable", f"{where} at t={t}: delta_value reads {dv} in a cycle in which this node was not written (lmt={d['lmt']})", dict(feats))
        if is_consumer:
            SOFT.append(item)   # known finding F9: recorded, does not stop the comparison of the other facts
        else:
            out.append(item)
            return
    if k in ("TSB", "TSL") and "ch" in d and isinstance(d.get("it"), dict) and "mi" in d["it"]:
        # the filtered iteration accessors (modified_items / valid_items / modified_values / valid_values) of this very view
        # must list exactly the children whose own modified / valid read true in this cycle
        it = d["it"]
        names = it.get("names") or list(range(len(d["ch"])))
        e_mi = [names[i] for i, c in enumerate(d["ch"]) if c.get("m") is True]
        e_vi = [names[i] for i, c in enumerate(d["ch"]) if c.get("v") is True]
        if all(isinstance(c.get("m"), bool) and isinstance(c.get("v"), bool) for c in d["ch"]):
            if sorted(map(str, it["mi"])) != sorted(map(str, e_mi)) or it["mv"] != len(e_mi):
                out.append(("modified_items_wrong", f"{where} at t={t}: modified_items() lists {it['mi']} ({it['mv']} modified_values) but the children reading modified=true are {e_mi}", dict(feats, parent_modified=d["m"])))
                return
            if sorted(map(str, it["vi"])) != sorted(map(str, e_vi)) or it["vv"] != len(e_vi):
                out.append(("valid_items_wrong", f"{where} at t={t}: valid_items() lists {it['vi']} ({it['vv']} valid_values) but the children reading valid=true are {e_vi}", dict(feats)))
                return
    if k in ("TSB", "TSL") and "ch" in d and d.get("v") is True and isinstance(d.get("val"), (dict, list)):
        # the parent's own whole value() agrees with what its valid scalar children read
        subs_ = [cs for _, cs in schema[1]] if k == "TSB" else [schema[1]] * len(d["ch"])
        names_ = [n for n, _ in schema[1]] if k == "TSB" else list(range(len(d["ch"])))
        for nm_, cd_, cs_ in zip(names_, d["ch"], subs_):
            if cs_[0] == "TS" and cd_.get("v") is True:
                pv = d["val"].get(nm_) if isinstance(d["val"], dict) else (d["val"][nm_] if nm_ < len(d["val"]) else None)
                if pv != cd_.get("val"):
                    out.append(("parent_value_disagrees_with_child", f"{where} at t={t}: the parent's value() shows {pv!r} for child {nm_}, which itself is valid and reads {cd_.get('val')!r}", dict(feats)))
                    return
    if k in ("TSB", "TSL") and "ch" in d and m is not None:
        subs = [cs for _, cs in schema[1]] if k == "TSB" else [schema[1]] * schema[2]
        for i, (cd, cs) in enumerate(zip(d["ch"], subs)):
            compare_tree(cd, m.value[i], cs, t, f"{where}[{i}]", out, is_consumer, root_invalidation)
    elif k == "TSD" and "acc" in d and m is not None and isinstance(d["acc"], dict) and "ch" in d["acc"]:
        seen = set()
        for key, cd in d["acc"]["ch"]:
            seen.add(key)
            cm = m.value.get(key)
            if cm is None:
                out.append(("dict_key_set_wrong", f"{where} at t={t}: key {key} is present but the history removed it / never added it", feats))
                return
            compare_tree(cd, cm, schema[2], t, f"{where}[{key}]", out, is_consumer, root_invalidation)
        missing = set(m.value) - seen
        if missing:
            out.append(("dict_key_set_wrong", f"{where} at t={t}: keys {sorted(missing)} are missing", feats))


def _touches_keys(op, before):
    """does this dictionary op insert or remove a key (even if a later op of the same call cancels it)?"""
    if op.get("k") != "D":
        return False
    live = set(before)
    for o in op["ops"]:
        if o[0] in ("set", "at") and o[1] not in live:
            return True
        if o[0] == "erase" and o[1] in live:
            return True
        if o[0] == "clear" and live:
            return True
    return False


def same_facts(p, c, schema, t, where, out):
    """every consumer sees the same value, modified, valid and last-modified-time as the producer."""
    k = schema[0]
    for fld, name in (("m", "modified"), ("v", "valid"), ("lmt", "last_modified_time")):
        if p.get(fld) != c.get(fld):
            out.append(("consumer_disagrees", f"{where} at t={t}: producer {name}={p.get(fld)} but consumer reads {c.get(fld)} (producer valid={p.get('v')}, lmt={p.get('lmt')}; consumer valid={c.get('v')}, lmt={c.get('lmt')})",
                        {"field": name, "kind": k, "producer_valid": p.get("v")}))
            return
    if p.get("v") and k in ("TS", "TSS", "TSW") and p.get("val") != c.get("val"):
        out.append(("consumer_disagrees", f"{where} at t={t}: producer value {p.get('val')} but consumer reads {c.get('val')}", {"field": "value", "kind": k, "producer_valid": True}))
        return
    if k in ("TSB", "TSL") and "ch" in p and "ch" in c:
        subs = [cs for _, cs in schema[1]] if k == "TSB" else [schema[1]] * schema[2]
        for i, (pp, cc, cs) in enumerate(zip(p["ch"], c["ch"], subs)):
            same_facts(pp, cc, cs, t, f"{where}[{i}]", out)
    elif k == "TSD" and isinstance(p.get("acc"), dict) and isinstance(c.get("acc"), dict):
        pk = {key: d for key, d in p["acc"]["ch"]}
        ck = {key: d for key, d in c["acc"]["ch"]}
        if set(pk) != set(ck):
            out.append(("consumer_disagrees", f"{where} at t={t}: producer keys {sorted(pk)} but consumer sees {sorted(ck)}", {"field": "keys", "kind": k, "producer_valid": p.get("v")}))
            return
        for key in pk:
            same_facts(pk[key], ck[key], schema[2], t, f"{where}[{key}]", out)


def check(case, ctx) -> Result:
    res = Result()
    schema = tuple_schema(case["schema"])
    ss = tm.schema_str(schema)
    start, end = case["start"], case["end"]
    stmts = [{"id": "w", "op": "src", "schema": ss, "script": case["script"]},
             {"id": "metro", "op": "src", "schema": "TS[int]", "script": [[t, []] for t in range(start, end)]}]
    subs = {}
    cons = []
    for j, c in enumerate(case["cons"]):
        if c["kind"] == "root":
            stmts.append({"id": f"c{j}", "op": "node", "ins": ["w"], "deep": True, "valid": [], "log_inputs": False})
            cons.append((f"c{j}", [], "r"))
        elif c["kind"] == "keyset":
            stmts.append({"id": f"c{j}", "op": "node", "ins": [{"r": "w", "keyset": True}], "deep": True, "valid": [], "log_inputs": False})
            cons.append((f"c{j}", [], "keyset"))
        elif c["kind"] == "child":
            stmts.append({"id": f"c{j}", "op": "node", "ins": [{"r": "w", "path": c["path"]}], "deep": True, "valid": [], "log_inputs": False})
            cons.append((f"c{j}", c["path"], "r"))
        else:
            subs[f"g{j}"] = {"params": [ss], "stmts": [{"id": "c", "op": "node", "ins": [{"arg": 0}], "deep": True, "valid": [], "log_inputs": True}]}
            stmts.append({"id": f"n{j}", "op": "nested", "sub": f"g{j}", "ins": ["w"]})
            cons.append((f"g{j}.c", [], "nested"))
    prog = {"start": start, "end": end, "snap": True, "stmts": stmts}
    if subs:
        prog["subs"] = subs
    resp = ctx.run(prog)
    if resp.get("crash"):
        res.violations.append(Viol("engine_crash", f"worker died: {resp.get('signal')} {resp.get('stderr', '')[-500:]}"))
        return res
    if not resp.get("built"):
        raise Rejected(f"C04 generator produced a program the tree rejects: {resp.get('error')}")
    if resp.get("error"):
        res.violations.append(Viol("run_failed", f"run() threw on a valid history: {resp['error']}"))
        return res
    tr = Trace(resp["trace"])
    script = {t: ops for t, ops in case["script"]}
    m = tm.M(schema)
    snaps = {t: nodes for t, nodes in tr.snaps}
    child_only = silent_after_write = False
    wrote_before = False
    nested_evals = {}
    for d in tr.user_evals:
        if d["gid"] != "r" and d["ins"]:
            nested_evals.setdefault(d["label"], {})[d["t"]] = d["ins"][0]
    out = []
    del SOFT[:]
    ks = {"valid": False, "lmt": -1}
    for t in range(start, end):
        m.begin_cycle()
        ks_written = False
        for op in script.get(t, []):
            before = set(m.value) if schema[0] == "TSD" else None
            was_valid = m.valid
            m.apply(op, t)
            if schema[0] == "TSD":
                # the key-set endpoint is written by every key insertion / removal (also cancelled ones) and by the
                # dictionary's first write
                if set(m.value) != before or (not was_valid and m.valid) or _touches_keys(op, before):
                    ks_written = True
        if ks_written:
            ks = {"valid": True, "lmt": t}
        if t in script and schema[0] in ("TSB", "TSL", "TSD") and m.modified():
            child_only = True
        if t not in script and wrote_before:
            silent_after_write = True
        wrote_before = wrote_before or t in script
        nodes = snaps.get(t)
        if nodes is None:
            out.append(("cycle_missing", f"the metronome asked for a cycle at t={t} but none was observed", {}))
            break
        by_label = {n["l"]: n for n in nodes}
        P = by_label["w"].get("out")
        if P is None or "exc" in by_label["w"]:
            out.append(("snapshot_failed", f"reading the producer endpoint threw at t={t}: {by_label['w'].get('exc')}", {}))
            break
        compare_tree(P, m, schema, t, "producer", out, False, False)
        if out:
            break
        for lbl, path, kind in cons:
            if kind == "keyset":
                n = by_label.get(lbl)
                if n is None or "in" not in n:
                    out.append(("snapshot_failed", f"key-set consumer {lbl} unreadable at t={t}: {n}", {}))
                    break
                C = n["in"][0]
                exp_keys = sorted(m.value) if ks["valid"] else None
                got_keys = sorted(C.get("val")) if C.get("val") is not None else None
                feats_k = {"where": "keyset_consumer", "kind": "TSS"}
                if C["m"] != ks_written:
                    out.append(("modified_wrong", f"key-set consumer {lbl} at t={t}: modified reads {C['m']} but the script {'inserted / removed keys' if ks_written else 'neither inserted nor removed a key'} in this cycle (keys now {sorted(m.value)}, lmt={C['lmt']})", dict(feats_k, reads=C["m"])))
                elif C["v"] != ks["valid"]:
                    out.append(("valid_wrong", f"key-set consumer {lbl} at t={t}: valid reads {C['v']}, by the write history {ks['valid']}", dict(feats_k, reads=C["v"])))
                elif ks["valid"] and C["lmt"] != ks["lmt"]:
                    out.append(("last_modified_wrong", f"key-set consumer {lbl} at t={t}: last_modified_time reads {C['lmt']} but keys were last inserted / removed at {ks['lmt']}", feats_k))
                elif ks["valid"] and got_keys != exp_keys:
                    out.append(("dict_key_set_wrong", f"key-set consumer {lbl} at t={t}: reads keys {got_keys}, the dictionary holds {exp_keys}", feats_k))
                if out:
                    break
                continue
            if kind == "r":
                n = by_label.get(lbl)
                if n is None or "in" not in n:
                    out.append(("snapshot_failed", f"consumer {lbl} unreadable at t={t}: {n}", {}))
                    break
                C = n["in"][0]
            else:
                C = nested_evals.get(lbl, {}).get(t)
                if C is None:
                    continue  # the nested consumer only logs when it is evaluated
            sub = sub_schema(schema, path)
            pm = model_at(m, path)
            pp = P
            for i in path:
                pp = pp["ch"][i]
            compare_tree(C, pm, sub, t, f"consumer {lbl}", out, True, False)
            if out:
                break
            same_facts(pp, C, sub, t, f"consumer {lbl}", out)
            if out:
                break
        if out:
            break
    inval_times = [t for t, ops in case["script"] if '"inval"' in __import__("json").dumps(ops)]
    t0 = min(inval_times) if inval_times else None
    for clause, msg, feats in out[:2] + SOFT[:1]:
        feats = dict(feats)
        tv = int(msg.split(" at t=")[1].split(":")[0]) if " at t=" in msg else None
        feats["at_or_after_invalidation"] = bool(t0 is not None and tv is not None and tv >= t0)
        res.violations.append(Viol(clause, msg, feats))
    depth = tm.schema_depth(schema)
    res.nontrivial = depth >= 2 and child_only and len(cons) >= 2 and silent_after_write
    res.labels.append("kind_" + schema[0])
    flat = json.dumps(case["script"])
    if '"setv"' in flat:
        res.labels.append("whole_value_write")
        if '"v": {}' in flat:
            res.labels.append("whole_value_write_populating_nothing")
    if child_only:
        res.labels.append("child_only_write")
    if silent_after_write:
        res.labels.append("silent_cycle_after_write")
    if any(k == "nested" for _, _, k in cons):
        res.labels.append("nested_consumer")
    if any(k == "keyset" for _, _, k in cons):
        res.labels.append("key_set_consumer")
    if '"sets"' in flat or ('"setv"' in flat and "[]" in flat):
        res.labels.append("whole_set_write")
    if '"setd"' in flat:
        res.labels.append("whole_dictionary_write")
    if any(p for _, p, _ in cons):
        res.labels.append("child_path_consumer")
    if "inval" in str(case["script"]):
        res.labels.append("invalidation")
    res.summary = {"schema": ss, "cycles": sorted(script), "consumers": [c["kind"] for c in case["cons"]]}
    return res
