"""C12 — switch_ output follows only the selected branch, which starts fresh."""
from __future__ import annotations

from hypothesis import strategies as st

from hgv import gen
from hgv.runner import Result, Viol
from hgv.trace import Trace
from hgv.worker import HarnessError, Rejected

ID = "C12"
ASAN_THOROUGH = True   # thorough tier runs against the AddressSanitizer build
RULE = ("switch_(key, {k: branch...}[, default][, reload_on_ticked]) over 2-3 generated branches (stateless, stateful accumulator / "
        "counter, self-scheduling timer, key-consuming, different bodies), a scripted key history with rapid flips, flips in the same "
        "cycle as an input tick, repeated key values and returns to an earlier key (>= 3 switches to reuse the two child slots), and an "
        "input that ticks or is held. Oracle: for each maximal interval of one selected key, a second engine run executes that branch "
        "ALONE (one inlined copy per interval, fed the input value sampled at the switch and the later ticks); the switch output must equal "
        "the concatenation of those streams restricted to their intervals; no user code of a deselected branch instance may run after the "
        "switch cycle; at most one child graph is alive; an unmatched key without default must make run() fail. Non-trivial = >= 3 "
        "switches including a return to an earlier key whose branch is stateful or self-scheduling. Distinct = canonical JSON of the case.")
ASSUMPTIONS = ["branches compute from input values, their own state and relative timers only (no start-time requests)"]


def examples(tier):
    return 3000 if tier == "quick" else 50000


def budget_s(tier):
    return 80 if tier == "quick" else 600


@st.composite
def branch(draw, name, npar_key, horizon, n_in=1):
    refs = [{"arg": i} for i in range(n_in + npar_key)]
    xs = refs[npar_key:]
    body = []
    flags = set()
    n = draw(st.integers(1, 2))
    for j in range(n):
        # every branch has the switch's signature but may use any subset of the inputs (one may ignore x, another y)
        ins = [draw(st.sampled_from(xs))] if j == 0 else [f"b{j - 1}"]
        if len(xs) > 1 and draw(st.booleans()):
            other = [r for r in xs if r not in ins]
            if other:
                ins.append(draw(st.sampled_from(other)))
        if npar_key and draw(st.booleans()):
            ins.append(refs[0])
        if len(ins) >= 2 and isinstance(ins[0], dict) and draw(st.integers(0, 2)) == 0:
            # the node's FIRST boundary input is read passively (as the library's sample does): at a key change it must still be
            # run for its other, active and held, input
            ins[0] = dict(ins[0], passive=True)
            flags.add("passive_first_input")
        kind = draw(st.sampled_from(["sum", "acc", "count", "timer"]))
        node = {"id": f"b{j}", "op": "node", "ins": ins, "out": "TS[int]", "coef": [draw(st.integers(1, 3)) for _ in ins],
                "bias": draw(st.integers(0, 50)), "log_inputs": True}
        if kind == "timer":
            node["fn"] = "count"
            node["sched"] = {"tick": [["s", "rel", draw(st.integers(1, min(5, horizon))), None]]}
            flags.add("self_scheduling")
        else:
            node["fn"] = kind
            if kind != "sum":
                flags.add("stateful")
        body.append(node)
    if draw(st.integers(0, 4)) == 0:
        # the first node's ONLY input is a list / bundle assembled structurally from the branch's arguments: at a key change it
        # must be run for the held arguments although none of its slots is a peered one
        k_ = len(xs)
        schema_ = f"TSL[TS[int],{k_}]" if draw(st.booleans()) else "TSB[" + ",".join(f"f{q}:TS[int]" for q in range(k_)) + "]"
        body.insert(0, {"id": "st", "op": "struct", "schema": schema_, "ins": list(xs)})
        body[1]["ins"] = ["st"]
        body[1]["coef"] = [1]
        flags.add("structural_input")
    names = (["key"] if npar_key else []) + ["x", "y"][:n_in]
    ret = f"b{n - 1}"
    if draw(st.integers(0, 3)) == 0:
        # the branch ENDS in a nested graph node (its terminal is a nested operator: the switch output then forwards to the
        # child's terminal); whether the keyed branches, the default, or both do so is up to the draw
        body.append({"id": "tail", "op": "nested", "sub": "NT", "ins": [ret]})
        ret = "tail"
        flags.add("nested_terminal")
    return {"params": ["TS[int]"] * len(names), "names": names, "out": "TS[int]", "stmts": body, "ret": ret}, sorted(flags)


@st.composite
def case(draw, tier):
    big = tier == "thorough"
    start = draw(st.sampled_from([0, 0, 2]))
    horizon = draw(st.integers(5, 40 if big else 18))
    end = start + horizon
    nb = draw(st.integers(2, 3))
    with_key = draw(st.booleans())
    n_in = draw(st.sampled_from([1, 1, 2]))
    # collection-shaped switch output: every branch ends in the library's collect (TS[int] -> TSS[int]), so an instance's
    # output is the set of everything IT has produced - stale entries of an earlier instance must not survive a switch
    coll_out = draw(st.integers(0, 3)) == 0
    subs, flags = {}, {}
    for i in range(nb):
        subs[f"B{i}"], flags[i] = draw(branch(f"B{i}", 1 if with_key else 0, horizon, n_in))
    has_default = draw(st.integers(0, 3)) == 0
    if has_default:
        subs["BD"], flags["d"] = draw(branch("BD", 1 if with_key else 0, horizon, n_in))
    reload = draw(st.integers(0, 3)) == 0
    unmatched = (not has_default) and draw(st.integers(0, 9)) == 0
    times = draw(gen.time_set(start, end - 1, 1, 10 if big else 7))
    keyvals = list(range(nb)) + ([7, 8, 8] if has_default else [7] if unmatched else [])   # 7 -> 8: two keys, one (default) branch
    key_script = []
    for t in times:
        key_script.append([t, [{"k": "set", "v": draw(st.sampled_from(keyvals if (has_default or (unmatched and t == times[-1])) else list(range(nb))))}]])
    x_script = draw(gen.int_script(start, end - 1, max_size=9 if big else 6))
    y_script = draw(gen.int_script(start, end - 1, max_size=6 if big else 4)) if n_in == 2 else None
    subs["NT"] = {"params": ["TS[int]"], "names": ["v"], "out": "TS[int]", "ret": "nt",
                  "stmts": [{"id": "nt", "op": "node", "ins": [{"arg": 0}], "out": "TS[int]", "fn": "sum", "bias": 10000, "log_inputs": False}]}
    if coll_out:
        for sn, sub in subs.items():
            if sn == "NT":
                continue
            sub["stmts"].append({"id": "coll", "op": "op", "name": "collect", "args": [{"ts": sub["ret"]}], "has_out": True, "out": "TSS[int]"})
            sub["ret"] = "coll"
            sub["out"] = "TSS[int]"
    return {"coll_out": coll_out, "y_script": y_script, "start": start, "end": end, "subs": subs, "nb": nb, "with_key": with_key, "has_default": has_default, "reload": reload,
            "key_script": key_script, "x_script": x_script, "flags": {str(k): v for k, v in flags.items()}}


@st.composite
def reduce_case(draw, tier):
    """branches that END in a reduce over the held dictionary: the branch terminal is a forwarding output that re-points
    whenever the reduction tree re-roots (2 -> 3 keys, shrink), and the switch output forwards to it"""
    big = tier == "thorough"
    start = draw(st.sampled_from([0, 0, 2]))
    horizon = draw(st.integers(5, 30 if big else 16))
    end = start + horizon
    from hgv import tsmodel as tm
    opts = {"cancel": True, "multi": True, "no_rewrite": True, "grow": draw(st.booleans()), "keys": draw(st.sampled_from([3, 5, 9]))}
    d_script = draw(tm.history(("TSD", "int", ("TS", "int")), start, horizon, opts, max_cycles=12 if big else 8))
    times = draw(gen.time_set(start, end - 1, 1, 6))
    key_script = [[t, [{"k": "set", "v": draw(st.integers(0, 1))}]] for t in times]
    combs = [draw(st.sampled_from(["sum", "max"])), draw(st.sampled_from(["sum", "max", "xor"]))]
    zeros = [draw(st.sampled_from([None, 0, 7])), draw(st.sampled_from([None, 0]))]
    return {"kind": "reduce_terminal", "start": start, "end": end, "d_script": d_script, "key_script": key_script, "combs": combs, "zeros": zeros,
            "reload": draw(st.integers(0, 4)) == 0}


def strategy(tier):
    return st.one_of(case(tier), case(tier), case(tier), case(tier), reduce_case(tier))


def check_reduce(case, ctx) -> Result:
    from hgv import tsmodel as tm
    res = Result()
    start, end = case["start"], case["end"]
    subs = {}
    for i in (0, 1):
        subs[f"C{i}"] = {"params": ["TS[int]", "TS[int]"], "names": ["lhs", "rhs"], "out": "TS[int]", "ret": "c",
                         "stmts": [{"id": "c", "op": "node", "ins": [{"arg": 0}, {"arg": 1}], "out": "TS[int]", "fn": case["combs"][i], "log_inputs": False}]}
        z = case["zeros"][i]
        subs[f"B{i}"] = {"params": ["TSD[int,TS[int]]"], "names": ["d"], "out": "TS[int]", "ret": "red", "stmts": [
            {"id": "red", "op": "op", "name": "reduce", "has_out": True, "args": [{"fn": f"C{i}"}, {"ts": {"arg": 0}}] + ([{"sc": z, "t": "int"}] if z is not None else [])}]}
    prog = {"start": start, "end": end, "subs": subs, "stmts": [
        {"id": "key", "op": "src", "schema": "TS[int]", "script": case["key_script"]},
        {"id": "d", "op": "src", "schema": "TSD[int,TS[int]]", "script": case["d_script"]},
        {"id": "sw", "op": "op", "name": "switch_", "has_out": True, "args": [{"ts": "key"}, {"cases": [[0, "B0"], [1, "B1"]], "key_t": "int", "reload": case["reload"]}, {"ts": "d"}]},
        {"id": "rec", "op": "node", "ins": ["sw"], "valid": []}]}
    resp = ctx.run(prog)
    if resp.get("crash"):
        res.violations.append(Viol("engine_crash", f"worker died {resp.get('signal')} {resp.get('stderr', '')[-500:]}"))
        return res
    if not resp.get("built"):
        raise Rejected(f"C12 generator produced a reduce-terminal program the tree rejects: {resp.get('error')}")
    feats = {"reload": case["reload"], "reduce_terminal": True}
    if resp.get("error"):
        res.violations.append(Viol("run_failed", f"run threw: {resp['error']}", feats))
        return res
    ivs = intervals(case)
    # the dictionary as each new instance finds it: its state at the end of the switch cycle, then the script's later cycles
    m = tm.M(("TSD", "int", ("TS", "int")))
    state_at, maxlive = {}, 0
    ds = {t: ops for t, ops in case["d_script"]}
    for t in range(start, end):
        if t in ds:
            m.begin_cycle()
            for op in ds[t]:
                m.apply(op, t)
        state_at[t] = {k: c.value for k, c in m.value.items() if c.valid}
        maxlive = max(maxlive, len(state_at[t]))
    # the selected branch ALONE: one engine run per interval that starts at the switch time, fed the dictionary as the new
    # instance finds it (its state at the end of the switch cycle - also when that is empty - then the script's later cycles)
    exp = {}
    written = {}
    w = False
    for t in range(start, end):
        w = w or t in ds
        written[t] = w
    for i, (k, ts, te) in enumerate(ivs):
        first = [{"k": "D", "ops": [["set", kk, vv] for kk, vv in sorted(state_at[ts].items())]}] if state_at[ts] else ([{"k": "D", "ops": [["clear"]]}] if written[ts] else None)
        sc = ([[ts, first]] if first else []) + [[t, ops] for t, ops in case["d_script"] if ts < t < te]
        solo = [{"id": "d0", "op": "src", "schema": "TSD[int,TS[int]]", "script": sc},
                {"id": "f0", "op": "inline", "sub": f"B{k}", "ins": ["d0"]},
                {"id": "r0", "op": "node", "ins": ["f0"], "valid": []}]
        sresp = ctx.run({"start": ts, "end": te, "stmts": solo, "subs": subs})
        if sresp.get("crash") or not sresp.get("built") or sresp.get("error"):
            raise HarnessError(f"C12 reduce-terminal solo program failed: {sresp.get('error') or sresp.get('signal')}")
        exp[i] = [(t, v) for (t, v, _) in Trace(sresp["trace"]).stream("r0") if ts <= t < te]
    got = [(t, v) for (t, v, _) in Trace(resp["trace"]).stream("rec", 0, "r")]
    # state comparison at every tick of either run: the switch output must hold what the selected reduce alone holds
    for i, (k, ts, te) in enumerate(ivs):
        g_iv = [(t, v) for (t, v) in got if ts <= t < te]
        for t in sorted({t for t, _ in g_iv} | {t for t, _ in exp[i]}):
            g = [v for (tt, v) in g_iv if tt <= t]
            e = [v for (tt, v) in exp[i] if tt <= t]
            gv, ev = (g[-1] if g else None), (e[-1] if e else None)
            if gv != ev:
                res.violations.append(Viol("switch_stream_differs", f"t={t} (branch of key {k} selected at {ts}, {len(state_at[t])} live keys): the switch output holds {gv}, that branch's reduce alone holds {ev}; switch ticks {g_iv[:10]}, alone {exp[i][:10]}",
                                           dict(feats, at_switch_cycle=t == ts)))
                break
        if res.violations:
            break
    res.nontrivial = len(ivs) >= 2 and maxlive >= 3
    res.labels.append("reduce_terminal")
    if maxlive >= 3:
        res.labels.append("reduce_terminal_three_plus_keys")
    if len(ivs) >= 3:
        res.labels.append("three_plus_switches")
    res.summary = {"intervals": ivs[:8], "stream": got[:12]}
    return res


def intervals(case):
    """[(key, t_switch, t_end)] maximal intervals; a repeated key value only restarts with reload_on_ticked."""
    out = []
    cur = None
    for t, ops in case["key_script"]:
        k = ops[-1]["v"]
        if cur is not None and k == cur[0] and not case["reload"]:
            continue
        if cur is not None:
            out.append((cur[0], cur[1], t))
        cur = (k, t)
    if cur is not None:
        out.append((cur[0], cur[1], case["end"]))
    return out


def check(case, ctx) -> Result:
    if case.get("kind") == "reduce_terminal":
        return check_reduce(case, ctx)
    res = Result()
    start, end = case["start"], case["end"]
    cases = [[i, f"B{i}"] for i in range(case["nb"])]
    carg = {"cases": cases, "key_t": "int", "reload": case["reload"]}
    if case["has_default"]:
        carg["default"] = "BD"
    prog = {"start": start, "end": end, "subs": case["subs"], "stmts": [
        {"id": "key", "op": "src", "schema": "TS[int]", "script": case["key_script"]},
        {"id": "x", "op": "src", "schema": "TS[int]", "script": case["x_script"]}] + ([{"id": "y", "op": "src", "schema": "TS[int]", "script": case["y_script"]}] if case.get("y_script") is not None else []) + [
        {"id": "sw", "op": "op", "name": "switch_", "args": [{"ts": "key"}, carg, {"ts": "x"}] + ([{"ts": "y"}] if case.get("y_script") is not None else []), "has_out": True},
        {"id": "rec", "op": "node", "ins": ["sw"], "valid": []}]}
    resp = ctx.run(prog)
    if resp.get("crash"):
        res.violations.append(Viol("engine_crash", f"worker died {resp.get('signal')} {resp.get('stderr', '')[-500:]}"))
        return res
    if not resp.get("built"):
        raise Rejected(f"C12 generator produced a program the tree rejects: {resp.get('error')}")
    ivs = intervals(case)
    known = set(range(case["nb"]))
    unmatched = [iv for iv in ivs if iv[0] not in known and not case["has_default"]]
    feats = {"reload": case["reload"], "with_key": case["with_key"], "default": case["has_default"]}
    if unmatched:
        res.labels.append("unmatched_key")
        if not resp.get("error"):
            res.violations.append(Viol("unmatched_key_accepted", f"key {unmatched[0][0]} at t={unmatched[0][1]} matches no case and there is no default, but run() completed normally", feats))
        res.nontrivial = False
        res.summary = {"intervals": ivs[:10], "error": str(resp.get("error"))[:200]}
        return res
    if resp.get("error"):
        res.violations.append(Viol("run_failed", f"run threw: {resp['error']}", feats))
        return res
    # ---- solo program: one inlined copy of the selected branch per interval
    x_ticks = [(t, ops[-1]["v"]) for t, ops in case["x_script"]]
    solo = []
    for i, (k, ts, te) in enumerate(ivs):
        sub = f"B{k}" if k in known else "BD"
        ins = []
        if case["with_key"]:
            # the branch's key parameter is the key time-series itself: it re-ticks whenever the key source ticks
            kt = [t for t, ops in case["key_script"] if ts <= t < te]
            solo.append({"id": f"k{i}", "op": "src", "schema": "TS[int]", "script": [[t, [{"k": "set", "v": k}]] for t in kt]})
            ins.append(f"k{i}")
        for nm_, ticks in (("x", x_ticks),) + ((("y", [(t, ops[-1]["v"]) for t, ops in case["y_script"]]),) if case.get("y_script") is not None else ()):
            cur = [v for t, v in ticks if t <= ts]
            sc = ([[ts, [{"k": "set", "v": cur[-1]}]]] if cur else []) + [[t, [{"k": "set", "v": v}]] for t, v in ticks if ts < t < te]
            solo.append({"id": f"{nm_}{i}", "op": "src", "schema": "TS[int]", "script": sc})
            ins.append(f"{nm_}{i}")
        solo.append({"id": f"f{i}", "op": "inline", "sub": sub, "ins": ins})
        solo.append({"id": f"r{i}", "op": "node", "ins": [f"f{i}"]})
    exp = []
    if ivs:
        sresp = ctx.run({"start": start, "end": end, "stmts": solo, "subs": case["subs"]})
        if sresp.get("crash") or not sresp.get("built") or sresp.get("error"):
            raise HarnessError(f"C12 solo program failed: {sresp.get('error') or sresp.get('signal')}")
        st_ = Trace(sresp["trace"])
        for i, (k, ts, te) in enumerate(ivs):
            exp += [(t, v) for (t, v, _) in st_.stream(f"r{i}") if ts <= t < te]
    tr = Trace(resp["trace"])
    got = [(t, v) for (t, v, _) in tr.stream("rec", 0, "r")]
    # a switch whose output forwards to a nested terminal re-binds at a switch-over: the consumer may then see one tick with
    # NO value (the new branch has produced nothing yet). That is the reset becoming visible, not a value of any branch.
    got = [(t, v) for (t, v) in got if v is not None]
    if case.get("coll_out"):
        # state comparison: at every tick of either run the switch output must hold exactly what the CURRENT instance alone
        # has collected so far (an empty tick more or less does not matter; a stale element does)
        def state(stream, t, lo):
            vals = [v for (tt, v) in stream if lo <= tt <= t]
            return sorted(vals[-1]) if vals and vals[-1] else []
        for t in sorted({tt for tt, _ in got} | {tt for tt, _ in exp}):
            iv = next(((kk, ts, te) for (kk, ts, te) in ivs if ts <= t < te), None)
            if iv is None:
                continue
            g, e = state(got, t, -1), state(exp, t, iv[1])
            if g != e:
                res.violations.append(Viol("switch_stream_differs", f"t={t} (instance of key {iv[0]} selected at {iv[1]}): the switch output holds {g}, that instance alone has collected {e}; intervals {ivs[:8]}",
                                           dict(feats, collection_output=True, stale=bool(set(g) - set(e)))))
                break
        got = exp      # the tick-for-tick comparison below is for scalar outputs
    if got != exp:
        k = next((i for i, (a, b) in enumerate(zip(got, exp)) if a != b), min(len(got), len(exp)))
        tdiff = (got[k][0] if k < len(got) else exp[k][0])
        iv = next((j for j, (kk, ts, te) in enumerate(ivs) if ts <= tdiff < te), None)
        returned = iv is not None and any(ivs[j][0] == ivs[iv][0] for j in range(iv))
        at_switch = iv is not None and ivs[iv][1] == tdiff
        res.violations.append(Viol("switch_stream_differs", f"switch output {got[max(0, k - 1):k + 3]} but the selected branches alone give {exp[max(0, k - 1):k + 3]} (first difference at tick #{k}, t={tdiff}, interval {ivs[iv] if iv is not None else None}; intervals {ivs[:8]})",
                                   dict(feats, returned_to_earlier_key=returned, at_switch_cycle=at_switch)))
    # ---- what a branch node reads on its inputs is coherent: modified <=> last_modified_time is this cycle (a held input sampled at
    # the switch reads modified with the switch time as its last-modified-time), and a modified input is valid
    for e in resp["trace"]:
        if e[0] == "ev" and e[1] != "r" and len(e) > 6 and e[6]:
            bad = next((i for i in e[6] if isinstance(i, dict) and isinstance(i.get("m"), bool) and isinstance(i.get("lmt"), int) and
                        ((i["m"] and i["lmt"] != e[4]) or (not i["m"] and i["lmt"] == e[4]) or (i["m"] and not i.get("v")))), None)
            if bad is not None:
                res.violations.append(Viol("input_flags_incoherent", f"node {e[3]} in {e[1]} at t={e[4]} reads an input with modified={bad['m']} valid={bad.get('v')} last_modified_time={bad['lmt']}", dict(feats, sampled_cycle=any(ts == e[4] for _, ts, _ in ivs))))
                break
    # ---- deselected instances are silent; one child at a time
    alive = set()
    max_alive = 0
    born = {}
    died = {}
    now = None
    for e in resp["trace"]:
        if e[0] == "gE" and e[1] == "r":
            now = e[2]
        elif e[0] == "gs" and isinstance(e[1], str) and e[1] != "r":
            alive.add(e[1]); born[e[1]] = now if now is not None else start
            # branch instances are the DIRECT children of the switch node (a branch may contain nested graphs of its own)
            max_alive = max(max_alive, len([g_ for g_ in alive if g_.count("/") == 1]))
        elif e[0] == "gp" and isinstance(e[1], str) and e[1] != "r":
            alive.discard(e[1]); died[e[1]] = now
        elif e[0] == "ev" and e[1] != "r":
            gid = e[1]
            if gid in died and died[gid] is not None and e[4] > died[gid]:
                res.violations.append(Viol("deselected_branch_evaluated", f"instance {gid} of a deselected branch ran user code at t={e[4]} after it was stopped at t={died[gid]}", feats))
                break
    if max_alive > 1:
        res.violations.append(Viol("two_children_alive", f"{max_alive} child graphs were alive at once", feats))
    returns = sum(1 for j, (k, ts, te) in enumerate(ivs) if any(ivs[i][0] == k for i in range(j)))
    ret_stateful = any(any(ivs[i][0] == k for i in range(j)) and case["flags"].get(str(k) if k in known else "d") for j, (k, ts, te) in enumerate(ivs))
    res.nontrivial = len(ivs) >= 4 and ret_stateful
    if returns:
        res.labels.append("return_to_earlier_key")
    if len(ivs) >= 4:
        res.labels.append("three_plus_switches")
    if case["reload"]:
        res.labels.append("reload_on_ticked")
    if case["has_default"]:
        res.labels.append("default_branch")
    if case.get("coll_out"):
        res.labels.append("collection_output")
    if case["with_key"]:
        res.labels.append("key_consuming")
    if case.get("y_script") is not None:
        res.labels.append("two_inputs_used_selectively")
    if any(any(t == ts for t, _ in x_ticks) for _, ts, _ in ivs[1:]):
        res.labels.append("flip_with_input_tick")
    res.summary = {"intervals": ivs[:10], "stream": got[:14]}
    return res
