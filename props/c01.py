"""C01 — nodes evaluate at most once per cycle and only after their producers; un-cut dependency cycles are rejected."""
from __future__ import annotations

from hypothesis import strategies as st

from hgv import gen
from hgv.runner import Result, Viol
from hgv.trace import Trace
from hgv.worker import HarnessError, Rejected

ID = "C01"
RULE = ("Random dataflow programs (fan-in/fan-out, diamonds, structural TSL/TSB sources, inlined and nested sub-programs to depth 3, "
        "delayed bindings so consumers are wired before producers, random admissible statement order, sources ticking in "
        "overlapping subsets of cycles) plus a generator of cyclic wirings (length 1-5 through delayed bindings, with and without a "
        "feedback cut). Non-trivial = a consumer with >=2 producers that were evaluated in the same cycle as it, or a nesting "
        "level >= 1 with evaluations inside the child, or a cyclic program of length >= 2. Distinct = canonical JSON of the case.")


def examples(tier):
    return 5000 if tier == "quick" else 80000


def budget_s(tier):
    return 60 if tier == "quick" else 600


@st.composite
def dag_case(draw, tier):
    big = tier == "thorough"
    start = draw(st.sampled_from([0, 0, 2, 500000]))
    horizon = draw(st.integers(3, 40 if big else 16))
    prog = draw(gen.dataflow(start, horizon, max_nodes=14 if big else 7, max_depth=3, big=big))
    prog["stmts"] = draw(gen.permuted(prog["stmts"]))
    return {"kind": "dag", "prog": prog}


@st.composite
def cycle_case(draw, tier):
    n = draw(st.integers(1, 5))
    through_struct = draw(st.booleans())
    nested_hop = draw(st.booleans())
    stmts = [{"id": "s0", "op": "src", "schema": "TS[int]", "script": [[0, [{"k": "set", "v": 1}]], [2, [{"k": "set", "v": 2}]]]}]
    loop_in = "LOOP"
    prev = loop_in
    for i in range(n):
        ins = [prev] + (["s0"] if i == 0 or draw(st.booleans()) else [])
        if through_struct and i == n - 1:
            stmts.append({"id": f"L{i}", "op": "struct", "schema": "TSL[TS[int],1]", "ins": [prev]})
            ins[0] = f"L{i}"
        stmts.append({"id": f"c{i}", "op": "node", "ins": ins, "out": "TS[int]", "valid": [], "fn": "sum"})
        prev = f"c{i}"
    subs = {}
    if nested_hop:
        subs["hop"] = {"params": ["TS[int]"], "out": "TS[int]",
                       "stmts": [{"id": "h", "op": "node", "ins": [{"arg": 0}], "out": "TS[int]", "fn": "sum", "bias": 1}], "ret": "h"}
        stmts.append({"id": "hop", "op": "nested", "sub": "hop", "ins": [prev]})
        prev = "hop"
    stmts.append({"id": "rec", "op": "node", "ins": [prev]})
    cyc = [{"id": "LOOP", "op": "delayed", "schema": "TS[int]"}] + stmts + [{"id": "LOOPb", "op": "bind", "d": "LOOP", "src": prev}]
    cut = [{"id": "LOOP", "op": "fb", "schema": "TS[int]", "init": 0}] + stmts + [{"id": "LOOPb", "op": "fb_bind", "fb": "LOOP", "src": prev}]
    base = {"start": 0, "end": 6}
    if subs:
        base["subs"] = subs
    return {"kind": "cycle", "n": n + (1 if nested_hop else 0), "prog": dict(base, stmts=cyc), "prog_cut": dict(base, stmts=cut)}


@st.composite
def hof_case(draw, tier):
    """a higher-order node (map_) whose broadcast argument is computed by a chain of 0-2 nodes, wired in a random admissible
    order, the argument optionally tagged passive: the map node reads that argument (its children do), so the argument's
    producer must have had its turn first"""
    horizon = draw(st.integers(3, 8))
    times = sorted(draw(st.sets(st.integers(0, horizon - 1), min_size=2, max_size=5)))
    chain = draw(st.integers(0, 2))
    grp_b = [{"id": "s2", "op": "src", "schema": "TS[int]", "script": [[t, [{"k": "set", "v": 1 + i}]] for i, t in enumerate(times)]}]
    last = "s2"
    for i in range(chain):
        grp_b.append({"id": f"c{i}", "op": "node", "ins": [last], "out": "TS[int]", "fn": "sum", "log_inputs": False})
        last = f"c{i}"
    grp_d = [{"id": "d", "op": "src", "schema": "TSD[int,TS[int]]", "script": [[t, [{"k": "D", "ops": [["set", 1, 11]]}]] for t in times]}]
    stmts = (grp_b + grp_d) if draw(st.booleans()) else (grp_d + grp_b)
    return {"kind": "hof", "end": horizon, "times": times, "b": last, "passive": draw(st.booleans()), "stmts": stmts, "chain": chain}


@st.composite
def mesh_case(draw, tier):
    """mesh_(F, val, link) with F(val, link) = val + (mesh_(F)[link] if that is valid else 0): instance k reads - through the
    reference its mesh_subscribe node publishes - the result of instance link[k] (a sibling child graph of the same node).
    Keys only appear; links appear later than the instances they join, are re-pointed, and always lead to an existing
    key that comes earlier in a hidden random order (so the dependency relation stays acyclic)."""
    big = tier == "thorough"
    horizon = draw(st.integers(3, 14 if big else 9))
    nkeys = draw(st.integers(2, 7 if big else 5))
    order = draw(st.permutations(list(range(1, nkeys + 1))))     # a key may only depend on keys before it in this order
    born, vals, links = {}, [], []
    live = []
    for t in range(horizon):
        vops, lops = [], []
        fresh = [k for k in order if k not in born]
        # new instances (in any key order), value ticks of live ones
        for k in draw(st.lists(st.sampled_from(fresh), unique=True, max_size=2 if t else 3)) if fresh else []:
            born[k] = t
            live.append(k)
            vops.append(["set", k, draw(st.integers(1, 9))])
        for k in live:
            if born[k] < t and draw(st.integers(0, 2)) == 0:
                vops.append(["set", k, draw(st.integers(1, 9)) + 10 * t])
        # links: onto instances that already exist (now or earlier), possibly re-pointed later
        for k in live:
            cand = [j for j in order[:order.index(k)] if j in born]
            if cand and draw(st.integers(0, 3)) == 0:
                lops.append(["set", k, draw(st.sampled_from(cand))])
        if vops:
            vals.append([t, [{"k": "D", "ops": vops}]])
        if lops:
            links.append([t, [{"k": "D", "ops": lops}]])
    return {"kind": "mesh", "end": horizon, "vals": vals, "links": links, "order": list(order)}


def strategy(tier):
    return st.one_of(dag_case(tier), dag_case(tier), dag_case(tier), cycle_case(tier), hof_case(tier), mesh_case(tier))


def check_mesh(case, ctx, res):
    F = {"params": ["TS[int]", "TS[int]"], "names": ["val", "link"], "out": "TS[int]", "ret": "r", "stmts": [
        {"id": "dep", "op": "mesh_ref", "key": {"arg": 1}, "schema": "TS[int]"},
        {"id": "r", "op": "node", "ins": [{"arg": 0}, "dep"], "valid": [0], "out": "TS[int]", "fn": "sum", "log_inputs": False}]}
    end = case["end"]
    stmts = [{"id": "v", "op": "src", "schema": "TSD[int,TS[int]]", "script": case["vals"]},
             {"id": "l", "op": "src", "schema": "TSD[int,TS[int]]", "script": case["links"]},
             {"id": "clk", "op": "src", "schema": "TS[int]", "script": [[t, [{"k": "set", "v": t}]] for t in range(end)]},
             {"id": "m", "op": "op", "name": "mesh_", "args": [{"fn": "F"}, {"ts": "v"}, {"ts": "l"}], "has_out": True},
             {"id": "rec", "op": "node", "ins": ["m", "clk"], "deep": True, "valid": []}]
    resp = ctx.run({"start": 0, "end": end, "subs": {"F": F}, "stmts": stmts})
    if resp.get("crash"):
        res.violations.append(Viol("engine_crash", f"mesh_ run: worker died: {resp.get('signal')} {resp.get('stderr', '')[-300:]}"))
        return res
    if not resp.get("built"):
        raise Rejected(f"C01 mesh program rejected: {resp.get('error')}")
    feats = {"mesh": True}
    if resp.get("error"):
        res.violations.append(Viol("run_failed", f"mesh_ run threw: {resp['error']}", feats))
        return res
    got = {}
    for e in resp["trace"]:
        if e[0] == "ev" and e[3] == "rec":
            d = e[6][0]
            got[e[4]] = {k: c.get("val") for k, c in ((d.get("acc") or {}).get("ch") or []) if c.get("v")} if d.get("v") else {}
    val, link = {}, {}
    vs = {t: ops for t, ops in case["vals"]}
    ls = {t: ops for t, ops in case["links"]}
    late_link = both_tick = False
    for t in range(end):
        ticked = set()
        for op in vs.get(t, []):
            for _, k, x in op["ops"]:
                val[k] = x
                ticked.add(k)
        for op in ls.get(t, []):
            for _, k, j in op["ops"]:
                if j in val and j not in ticked:
                    late_link = True
                link[k] = j
        exp = {}
        for k in case["order"]:
            if k in val:
                exp[k] = val[k] + (exp.get(link[k], 0) if k in link else 0)
        for k, j in link.items():
            if k in ticked and j in ticked and late_link:
                both_tick = True
        if t in got and got[t] != exp:
            bad = sorted(k for k in set(exp) | set(got[t]) if exp.get(k) != got[t].get(k))
            res.violations.append(Viol("consumer_ran_before_producer", f"t={t}: mesh_ output {got[t]} but with val={val} and links={link} every instance that reads a sibling's result of this cycle must give {exp} (differs at {bad}): an instance was evaluated before the sibling it reads had its turn, or was not evaluated although that sibling ticked", feats))
            break
        if t not in got:
            res.violations.append(Viol("run_failed", f"t={t}: the recorder bound to the mesh output and a metronome did not run", feats))
            break
    res.nontrivial = late_link and both_tick
    res.labels.append("mesh")
    if late_link:
        res.labels.append("mesh_link_onto_existing_instance")
    if len(link) >= 2 and any(link.get(link[k]) for k in link):
        res.labels.append("mesh_chain_of_three")
    return res


def check_hof(case, ctx, res):
    F = {"params": ["TS[int]", "TS[int]"], "names": ["x", "bb"], "out": "TS[int]", "ret": "f",
         "stmts": [{"id": "f", "op": "node", "ins": [{"arg": 0}, {"arg": 1}], "out": "TS[int]", "fn": "sum", "coef": [1, 100], "log_inputs": False}]}
    stmts = case["stmts"] + [
        {"id": "m", "op": "op", "name": "map_", "args": [{"fn": "F"}, {"ts": "d"}, {"ts": {"r": case["b"], "passive": True} if case["passive"] else case["b"]}], "has_out": True},
        {"id": "rec", "op": "node", "ins": ["m"], "deep": True, "valid": []}]
    resp = ctx.run({"start": 0, "end": case["end"], "subs": {"F": F}, "stmts": stmts})
    if resp.get("crash"):
        res.violations.append(Viol("engine_crash", f"worker died: {resp.get('signal')} {resp.get('stderr', '')[-300:]}"))
        return res
    if not resp.get("built"):
        raise Rejected(f"C01 higher-order program rejected: {resp.get('error')}")
    if resp.get("error"):
        res.violations.append(Viol("run_failed", f"run threw: {resp['error']}"))
        return res
    feats = {"passive_higher_order_arg": case["passive"]}
    labels = [n["l"] or n["n"] for n in resp["graph"]["nodes"]]
    im, ib = labels.index("map_"), labels.index(case["b"])
    if ib > im:
        res.violations.append(Viol("producer_ranked_after_consumer", f"{case['b']} (index {ib}) produces the broadcast argument of map_ (index {im}) {'(tagged passive) ' if case['passive'] else ''}but is ranked after it: {labels}", feats))
    got = {e[4]: dict(map(tuple, e[6][0].get("val") or [])).get(1) for e in resp["trace"] if e[0] == "ev" and e[3] == "rec" and e[6][0].get("m")}
    for i, t in enumerate(case["times"]):
        exp = 11 + 100 * (1 + i)
        if got.get(t) != exp:
            res.violations.append(Viol("consumer_ran_before_producer", f"t={t}: the mapped child computed {got.get(t)} from x=11 and the broadcast argument, whose producer wrote {1 + i} in this cycle (expected {exp}); node order {labels}", feats))
            break
    res.nontrivial = case["chain"] >= 1
    res.labels.append("higher_order_broadcast" + ("_passive" if case["passive"] else ""))
    return res


# ---------------------------------------------------------------------------------------------------------------
def _resolve_producers(prog):
    """For every harness `node` statement: list per input of the producing labels known from the IR (root scope
    and inline/nested sub bodies). Returns (reads, scope_of_label) with reads = [(scope, consumer, k, [producers])]."""
    reads = []
    subs = prog.get("subs", {})

    def ret_label(sub, prefix):
        r = subs[sub]["ret"]
        body = {s["id"]: s for s in subs[sub]["stmts"] if "id" in s}
        s = body.get(r)
        if s is None:
            return []
        if s["op"] == "node":
            return [prefix + sub + "." + r]
        if s["op"] == "nested":
            return [prefix + sub + "." + r]
        return []

    def scope(stmts, prefix, argmap):
        by_id = {s["id"]: s for s in stmts if "id" in s}
        bound = {s["d"]: s["src"] for s in stmts if s.get("op") == "bind"}

        def producers(ref, seen=()):
            if isinstance(ref, dict):
                if "arg" in ref:
                    return argmap.get(ref["arg"], [])
                if "r" in ref:
                    ref = ref["r"]
                else:
                    return []
            s = by_id.get(ref)
            if s is None or ref in seen:
                return []
            op = s["op"]
            if op in ("node", "src", "nested"):
                return [prefix + ref]
            if op == "inline":
                return ret_label(s["sub"], prefix)
            if op == "struct":
                out = []
                for r in s["ins"]:
                    out += producers(r, seen + (ref,))
                return out
            if op == "delayed":
                return producers(bound.get(ref), seen + (ref,)) if ref in bound else []
            return []

        for s in stmts:
            if s.get("op") == "node":
                for k, r in enumerate(s.get("ins", [])):
                    direct = isinstance(r, str) and by_id.get(r, {}).get("op") in ("node", "src")
                    reads.append((prefix, prefix + s["id"], k, producers(r), direct))
            elif s.get("op") == "nested":
                ps = []
                for r in s.get("ins", []):
                    ps += producers(r)
                reads.append((prefix, prefix + s["id"], None, ps, False))
            elif s.get("op") == "inline":
                am = {j: producers(r) for j, r in enumerate(s.get("ins", []))}
                scope(subs[s["sub"]]["stmts"], prefix + s["sub"] + ".", am)

    scope(prog["stmts"], "", {})
    return reads


def _index_maps(graph, out, path="r"):
    """label -> index for the root graph and every child graph template (keyed by a template path)."""
    out[path] = {n["l"]: i for i, n in enumerate(graph["nodes"])}
    for i, n in enumerate(graph["nodes"]):
        for j, ch in enumerate(n.get("children", [])):
            if ch:
                _index_maps(ch, out, f"{path}/{i}")
    return out


def _check_graph_edges(graph, res, prog, path="r"):
    fb_sinks = {s.get("id", "fbsink") for s in prog["stmts"] if s.get("op") == "fb_bind"}
    for e in graph["edges"]:
        src, tgt = e[0], e[1]
        if not src < tgt:
            lbl = graph["nodes"][tgt]["l"]
            if lbl in fb_sinks:
                continue
            res.violations.append(Viol("edge_not_forward", f"compiled graph {path}: edge {src}({graph['nodes'][src]['l']}) -> {tgt}({lbl}) does not go forward in rank order"))
    pe = graph.get("push_end", 0)
    for i, n in enumerate(graph["nodes"]):
        if (n.get("k") == "push") != (i < pe):
            res.violations.append(Viol("push_prefix", f"compiled graph {path}: push sources are not exactly the prefix [0,{pe})"))
            break
    for i, n in enumerate(graph["nodes"]):
        for ch in n.get("children", []):
            if ch:
                _check_graph_edges(ch, res, prog, f"{path}/{i}")


def check(case, ctx) -> Result:
    res = Result()
    if case["kind"] == "hof":
        return check_hof(case, ctx, res)
    if case["kind"] == "mesh":
        return check_mesh(case, ctx, res)
    if case["kind"] == "cycle":
        r1 = ctx.run(case["prog"])
        r2 = ctx.run(case["prog_cut"])
        res.labels.append(f"cycle_len_{min(case['n'], 4)}")
        for r in (r1, r2):
            if r.get("crash"):
                res.violations.append(Viol("engine_crash", f"worker died on a cyclic wiring: {r.get('signal')} {r.get('stderr', '')[-300:]}"))
                return res
        if r1.get("built"):
            res.violations.append(Viol("cycle_accepted", f"a wiring with a dependency cycle of length {case['n']} was built and run (trace entries: {len(r1.get('trace', []))})"))
        else:
            err = r1.get("error") or {}
            if str(err.get("what", "")).startswith("harness:"):
                raise HarnessError(err["what"])
            res.labels.append("rejected_at_" + str(err.get("phase")))
        if not r2.get("built"):
            err = r2.get("error") or {}
            if str(err.get("what", "")).startswith("harness:"):
                raise HarnessError(err["what"])
            res.violations.append(Viol("feedback_cut_rejected", f"the same loop cut by a feedback edge was rejected: {err}"))
        elif r2.get("error"):
            res.violations.append(Viol("run_failed", f"feedback-cut loop failed at run time: {r2['error']}"))
        res.nontrivial = case["n"] >= 2
        res.summary = {"cyclic_error": (r1.get("error") or {}).get("what", "")[:200], "cut_built": r2.get("built")}
        return res

    prog = case["prog"]
    resp = ctx.run(prog)
    if resp.get("crash"):
        res.violations.append(Viol("engine_crash", f"worker died: {resp.get('signal')} {resp.get('stderr', '')[-400:]}"))
        return res
    if not resp.get("built"):
        res.violations.append(Viol("valid_program_rejected", f"acyclic program rejected: {resp.get('error')}"))
        return res
    if resp.get("error"):
        res.violations.append(Viol("run_failed", f"run() threw on a valid program: {resp['error']}"))
    graph = resp["graph"]
    idx = _index_maps(graph, {})
    # (a) static: every producer known from the IR is ranked before its consumer; compiled edges go forward
    reads = _resolve_producers(prog)
    root = idx["r"]
    fanin = 0
    for prefix, cons, k, prods, direct in reads:
        if cons not in root:
            continue
        for p in prods:
            if p in root and not root[p] < root[cons]:
                res.violations.append(Viol("producer_ranked_after_consumer", f"{p} (index {root[p]}) feeds {cons} (index {root[cons]})"))
    _check_graph_edges(graph, res, prog)
    # (b) dynamic
    tr = Trace(resp["trace"])
    started = set()
    stopped = set()
    open_nodes = []  # stack of (gid, idx) currently being visited
    open_graphs = []
    for pos, e in tr.lifecycle:
        k = e[0]
        if k == "ns":
            started.add((e[1], e[2]))
        elif k == "np":
            stopped.add((e[1], e[2]))
        elif k == "gE":
            if e[1] != "r":
                parent = e[1].rsplit("/", 1)[0]
                if not open_nodes or open_nodes[-1][0] != parent:
                    res.violations.append(Viol("child_outside_parent_bracket", f"child graph {e[1]} evaluated outside an evaluation of its parent node"))
            open_graphs.append(e[1])
        elif k == "ge":
            if open_graphs and open_graphs[-1] == e[1]:
                open_graphs.pop()
        elif k == "nE":
            key = (e[1], e[2])
            if key not in started or key in stopped:
                res.violations.append(Viol("evaluated_while_not_started", f"node {key} visited before start/after stop"))
            open_nodes.append(key)
        elif k == "ne":
            if open_nodes and open_nodes[-1] == (e[1], e[2]):
                open_nodes.pop()
    nested_evals = 0
    for gid, cycles in tr.cycles.items():
        for c in cycles:
            if any(b <= a for a, b in zip(c.visits, c.visits[1:])):
                dup = len(set(c.visits)) != len(c.visits)
                res.violations.append(Viol("twice_per_cycle" if dup else "visit_order", f"graph {gid} cycle t={c.t}: nodes visited in order {c.visits}"))
            if gid != "r" and c.evals:
                nested_evals += 1
    # (c) value level: a consumer that ran in a cycle must have seen the value its producer wrote in that cycle
    out_at = {}
    for d in tr.user_evals:
        if "out" in d["x"]:
            out_at[(d["gid"], d["label"], d["t"])] = d["x"]["out"]
    src_vals = {}
    for s in prog["stmts"]:
        if s.get("op") == "src":
            for t, ops in s["script"]:
                src_vals[(s["id"], t)] = ops[-1]["v"]
    same_cycle_fanin = 0
    direct_reads = {(cons, k): prods[0] for prefix, cons, k, prods, direct in reads if direct and len(prods) == 1 and prefix == ""}
    for d in tr.user_evals:
        if d["gid"] != "r" or not d["ins"]:
            continue
        n_same = 0
        for k, inp in enumerate(d["ins"]):
            p = direct_reads.get((d["label"], k))
            if p is None or inp is None:
                continue
            exp = out_at.get(("r", p, d["t"]))
            if exp is None:
                exp = src_vals.get((p, d["t"]))
            if exp is None:
                continue
            n_same += 1
            if not (inp.get("m") and inp.get("lmt") == d["t"] and inp.get("val") == exp):
                res.violations.append(Viol("consumer_ran_before_producer",
                                           f"at t={d['t']} {d['label']} input {k} read {inp.get('val')} (modified={inp.get('m')}, lmt={inp.get('lmt')}) but its producer {p} wrote {exp} in this cycle"))
        if n_same >= 2:
            same_cycle_fanin += 1
    res.nontrivial = same_cycle_fanin >= 1 or nested_evals >= 1
    if same_cycle_fanin:
        res.labels.append("same_cycle_fanin")
    if nested_evals:
        res.labels.append("nested_evals")
    if any(s.get("op") == "delayed" for s in prog["stmts"]):
        res.labels.append("delayed_binding")
    if any(s.get("op") == "struct" for s in prog["stmts"]):
        res.labels.append("structural_source")
    if any(s.get("op") == "inline" for s in prog["stmts"]):
        res.labels.append("inlined_sub")
    res.summary = {"nodes": [n["l"] for n in graph["nodes"]], "root_cycles": [c.t for c in tr.root_cycles()][:30], "same_cycle_fanin": same_cycle_fanin}
    return res
