"""C16 — push queue: accepted values are delivered once, in order, within capacity."""
from __future__ import annotations

from hypothesis import strategies as st

from hgv.runner import Result, Viol
from hgv.worker import HarnessError, Rejected

ID = "C16"
MAX_SHARDS = 4
RULE = ("A real-time graph with one push source (queue / burst / conflating policy; capacity unbounded, 1, 2 or 5) feeding a collecting "
        "sink, driven by 1-4 producer threads following a generated phase script: (1) free-running sends with micro-second jitter, "
        "(2) sends while the evaluation thread is provably latched inside a sink evaluation (the consumer cannot pop), (3) sends while "
        "the loop is idle and waiting (after a measured drain), (4) sends racing request_stop, (5) sends after run() returned; blocking "
        "and non-blocking sends. Every send and every delivery is stamped with a global atomic sequence. Checked: deliveries are "
        "accepted values, each once, per-producer order kept and gap-free, happens-before between producers respected, one value per "
        "strictly later cycle (queue) / one in-order tuple per cycle (burst), everything accepted before the stop race is delivered, "
        "pending <= capacity at every sample, exactly capacity-pending non-blocking sends accepted while latched, no refusal of an "
        "unbounded queue and no failed blocking send before stop, nothing accepted after run() returned, run() returns within the "
        "watchdog. Non-trivial = >= 2 producers, bounded capacity, at least one refusal and one send in the waiting phase. Distinct = "
        "canonical JSON of the case.")
ASSUMPTIONS = ["thread interleavings are steered by phases, a latch and jitter, not enumerated: a lost wake-up needing a window of a few instructions may escape",
               "the only timing bound asserted is a 20 s watchdog on run() returning after request_stop"]


def examples(tier):
    return 2000 if tier == "quick" else 40000


def budget_s(tier):
    return 80 if tier == "quick" else 600


@st.composite
def case(draw, tier):
    policy = draw(st.sampled_from(["queue", "queue", "queue", "burst", "conflating"]))
    cap = draw(st.sampled_from([0, 1, 2, 5])) if policy != "conflating" else 0
    np_ = draw(st.integers(1, 4)) if policy != "conflating" else 1
    latch = policy == "queue" and draw(st.booleans())
    # a slow consumer keeps a backlog in the source while the stop request arrives
    sink_sleep = draw(st.sampled_from([0, 0, 0, 300, 1500]))
    producers = []
    for p in range(np_):
        steps = []
        k = 0
        for ph in (1, 2, 3, 4, 5):
            n = draw(st.integers(0, (6 if sink_sleep and ph == 4 else 4) if ph != 5 else 2))
            if ph == 2 and not latch:
                n = 0
            for _ in range(n):
                k += 1
                blocking = ph != 2 and draw(st.integers(0, 3)) == 0
                steps.append({"ph": ph, "v": (p + 1) * 1000 + k, "blocking": blocking, "delay_us": draw(st.sampled_from([0, 0, 0, 5, 50, 300]))})
        producers.append(steps)
    # optionally a second push source (unbounded queue, own sink, own producer): the executor has ONE wake flag for all of
    # them, so every source must still get its turn
    second = None
    if policy != "conflating" and draw(st.integers(0, 3)) == 0:      # (the drain before the stop race counts deliveries of both)
        second = [{"ph": ph, "v": 9000 + j, "blocking": False, "delay_us": draw(st.sampled_from([0, 0, 50, 300])), "src": "ps2"}
                  for j, ph in enumerate(sorted(draw(st.lists(st.sampled_from([1, 1, 3, 3, 4]), min_size=1, max_size=5))))]
    # a sink that sends a value back into the source from the EVALUATION thread when it sees a chosen value (queue policy)
    loopback = None
    cand = [st_["v"] for st_ in producers[0] if st_["ph"] in (1, 3)]
    if policy == "queue" and cand and draw(st.integers(0, 3)) == 0:
        loopback = {"on": draw(st.sampled_from(cand)), "v": 7777}
    return {"loopback": loopback, "second": second, "policy": policy, "capacity": cap, "latch": latch, "producers": producers, "stop_after_us": draw(st.sampled_from([0, 0, 20, 200, 2000])),
            "sink_sleep_us": sink_sleep}


def strategy(tier):
    return case(tier)


def check(case, ctx) -> Result:
    res = Result()
    policy, cap = case["policy"], case["capacity"]
    schema = "TS[ints]" if policy == "burst" else "TS[int]"
    sink = {"id": "sink", "op": "node", "ins": ["ps"], "collect": True, "clock": True}
    if case["latch"]:
        sink["latch_on"] = -1
    if case.get("sink_sleep_us"):
        sink["sleep_us"] = case["sink_sleep_us"]
    if case.get("loopback"):
        sink["loop_send"] = dict(case["loopback"], src="ps")
    prog = {"mode": "rt", "max_wait_slice_us": 3600000000, "stmts": [{"id": "ps", "op": "push_src", "schema": schema, "policy": policy, "capacity": cap}, sink]}
    producers_all = list(case["producers"])
    if case.get("second"):
        prog["stmts"] += [{"id": "ps2", "op": "push_src", "schema": "TS[int]", "policy": "queue", "capacity": 0},
                          {"id": "sink2", "op": "node", "ins": ["ps2"], "collect": True, "clock": True}]
        producers_all.append(case["second"])
    rt = {"n_push": 2 if case.get("second") else 1, "producers": producers_all, "stop_after_us": case["stop_after_us"], "count_drain": policy != "conflating",
          "value_drain": policy == "conflating"}
    if case["latch"]:
        rt["latch"] = {"v": -1}
    resp = ctx.request({"op": "realtime", "prog": prog, "rt": rt}, timeout=90)
    feats = {"policy": policy, "bounded": cap > 0}
    if resp.get("crash"):
        res.violations.append(Viol("engine_crash_or_hang", f"real-time run died or hung: signal={resp.get('signal')} hang={resp.get('hang')} {resp.get('stderr', '')[-300:]}", dict(feats, hang=bool(resp.get("hang")))))
        return res
    if not resp.get("built"):
        raise Rejected(f"C16 program rejected: {resp.get('error')}")
    if resp.get("error"):
        res.violations.append(Viol("run_failed", f"run() threw: {resp['error']}", feats))
        return res
    if not resp.get("watchdog_ok"):
        res.violations.append(Viol("run_did_not_stop", "run() had not returned 20 s after request_stop", feats))
        return res
    sends, latch_info, drains, stop_req, sends2 = [], None, [], None, []
    for e in resp["log"]:
        if e[0] == "send" and e[2] == "ps2":
            sends2.append({"v": e[3], "ph": e[5], "ok": e[7], "sb": e[6], "sa": e[8], "exc": e[12]})
        elif e[0] == "send":
            sends.append({"p": e[1], "v": e[3], "blocking": e[4], "ph": e[5], "sb": e[6], "ok": e[7], "sa": e[8], "pend": e[11], "exc": e[12]})
        elif e[0] == "latch":
            latch_info = {"ok": e[3], "latched": e[5], "delivered": e[6], "accepted": e[7], "sb": e[2], "sa": e[4]}
        elif e[0] == "drain":
            drains.append(e)
        elif e[0] == "stop_req":
            stop_req = {"sb": e[1], "sa": e[2]}
        elif e[0] == "ctl":
            raise HarnessError(f"controller: {e}")
    if any(s["exc"] for s in sends):
        res.violations.append(Viol("send_threw", f"a send raised: {[s for s in sends if s['exc']][:2]}", feats))
        return res
    deliveries = []   # (seq, eval_time, [values])
    for e in resp["trace"]:
        if e[0] == "ev" and e[3] == "sink":
            v = e[6][0].get("val")
            deliveries.append((e[7].get("seq"), e[4], list(v) if isinstance(v, list) else [v], e[7].get("now")))
    flat = [v for d in deliveries for v in d[2]]
    out2 = []
    if case.get("second"):
        # the second source: unbounded queue, one producer - accepted values arrive exactly once, in order, each in its own
        # cycle, and everything accepted before the stop race is delivered
        d2 = [(e[4], e[6][0].get("val")) for e in resp["trace"] if e[0] == "ev" and e[3] == "sink2"]
        got2 = [v for _, v in d2]
        acc2 = [s2["v"] for s2 in sends2 if s2["ok"]]
        must2 = [s2["v"] for s2 in sends2 if s2["ok"] and s2["ph"] <= 3]
        if any(s2["exc"] for s2 in sends2):
            out2.append(("send_threw", f"a send to the second source raised: {[s2 for s2 in sends2 if s2['exc']][:2]}"))
        elif any((not s2["ok"]) and s2["ph"] <= 3 for s2 in sends2):
            out2.append(("unbounded_send_refused", f"a send to the second (unbounded) source was refused before any stop: {[s2 for s2 in sends2 if not s2['ok']][:2]}"))
        elif got2 != acc2[:len(got2)] or len(set(got2)) != len(got2):
            out2.append(("producer_order_broken", f"second source: accepted {acc2}, delivered {got2}"))
        elif [v for v in must2 if v not in got2]:
            out2.append(("accepted_value_lost", f"second push source: values {[v for v in must2 if v not in got2]} were accepted while the run was going but never delivered (delivered {got2}; first source delivered {flat[:12]})"))
        elif any(b <= a for (a, _), (b, _) in zip(d2, d2[1:])):
            out2.append(("delivery_time_not_increasing", f"second source delivery times {[t for t, _ in d2][:10]}"))
    accepted = {s["v"]: s for s in sends if s["ok"]}
    if case.get("loopback"):
        trig = next((e for e in resp["trace"] if e[0] == "ev" and e[3] == "sink" and isinstance(e[7], dict) and "loop" in e[7]), None)
        if trig is not None and trig[7]["loop"][0]:
            ph_t = next((s_["ph"] for s_ in sends if s_["v"] == case["loopback"]["on"]), 3)
            # the harness drains phases 1-3 by waiting for the producers' values; the looped-back send happens in the cycle
            # that delivers its trigger, so the run is known to "continue long enough" for it only when a later producer
            # send of phases 1-3 started after it had completed (that one is drained, and the queue is FIFO)
            if not any(s_["ok"] and s_["ph"] <= 3 and s_["sb"] > trig[7]["loop"][2] for s_ in sends):
                ph_t = 4
            accepted[7777] = {"p": -2, "v": 7777, "ph": ph_t, "sb": trig[7]["loop"][1], "sa": trig[7]["loop"][2], "ok": True}
            res.labels.append("send_from_evaluation_thread")
    if latch_info and latch_info["ok"]:
        accepted[-1] = {"p": -1, "v": -1, "ph": 1.5, "sb": latch_info["sb"], "sa": latch_info["sa"], "ok": True}
    out = []
    # delivered are accepted, once
    dup = sorted({v for v in flat if flat.count(v) > 1})
    if dup and policy != "conflating":
        out.append(("delivered_twice", f"values {dup[:5]} were delivered more than once: {flat[:30]}"))
    ghosts = [v for v in flat if v not in accepted]
    if ghosts:
        out.append(("delivered_not_accepted", f"values {ghosts[:5]} were delivered but their send was refused or never happened"))
    # time: strictly increasing cycles
    times = [d[1] for d in deliveries]
    if any(b <= a for a, b in zip(times, times[1:])):
        out.append(("delivery_time_not_increasing", f"delivery cycle times {times[:12]}"))
    if policy == "queue" and any(len(d[2]) != 1 for d in deliveries):
        out.append(("more_than_one_per_cycle", "a queue cycle delivered several values"))
    for d in deliveries:
        if d[3] is not None and d[3] < d[1]:
            out.append(("evaluated_before_wall_clock", f"cycle at engine time {d[1]} ran at wall clock {d[3]}"))
            break
    pos = {v: i for i, v in enumerate(flat)}
    if policy != "conflating":
        # per producer: order kept, no gaps
        for p in sorted({s["p"] for s in sends}):
            acc_p = [s["v"] for s in sends if s["p"] == p and s["ok"]]
            del_p = [v for v in flat if v in acc_p]
            if del_p != acc_p[:len(del_p)]:
                out.append(("producer_order_broken", f"producer {p} had accepted {acc_p} in this order but deliveries of its values are {del_p}"))
                break
        # happens-before across producers
        acc_list = sorted(accepted.values(), key=lambda s: s["sb"])
        done = False
        for a in acc_list:
            for b in acc_list:
                if a["sa"] < b["sb"] and b["v"] in pos and (a["v"] not in pos or pos[a["v"]] > pos[b["v"]]):
                    out.append(("happens_before_broken", f"send of {a['v']} completed (seq {a['sa']}) before send of {b['v']} started (seq {b['sb']}), both accepted, but {b['v']} was delivered {'and ' + str(a['v']) + ' never' if a['v'] not in pos else 'first'}"))
                    done = True
                    break
            if done:
                break
        # everything accepted before the stop race is delivered
        lost = [s["v"] for s in accepted.values() if s["ph"] <= 3 and s["v"] not in pos]
        if lost:
            out.append(("accepted_value_lost", f"values {lost[:6]} were accepted while the run was going (phases 1-3, drained: {[d[2] for d in drains]}) but never delivered; delivered {flat[:30]}"))
    else:
        acc_seq = [s["v"] for s in sends if s["ok"]]
        sub = [v for v in acc_seq if v in pos]
        if [v for v in flat if v in accepted] != sub or any(v not in accepted for v in flat):
            out.append(("conflated_order_broken", f"conflating source delivered {flat} from accepted sequence {acc_seq}"))
        # the state that has to reach the graph: the value of a MAXIMAL accepted send of phases 1-3 (no other accepted send
        # started after it had completed) - with racing producers any of them may have entered the source last. The
        # harness waited for one of them to be seen by the sink before it let the stop race begin (no timing assumption
        # other than the 20 s bound of that wait).
        acc3 = [s for s in accepted.values() if s["ph"] <= 3]
        maximal = [a["v"] for a in acc3 if not any(b["sb"] > a["sa"] for b in acc3)]
        if acc3 and not any(v in pos for v in maximal):
            out.append(("latest_state_lost", f"none of the last accepted values before the stop race ({maximal[:6]}) was ever delivered; delivered {flat}"))
    # whatever was accepted and not delivered sat in the queue when the run ended: it cannot be more than the capacity
    if cap > 0 and policy != "conflating":
        undelivered = [v for v in accepted if v not in pos]
        if len(undelivered) > cap:
            out.append(("accepted_beyond_capacity_at_stop", f"{len(undelivered)} accepted values were never delivered ({sorted(undelivered)[:8]}) but the queue holds at most {cap}: some send was accepted although the queue was full or the source had stopped"))
    # capacity
    if cap > 0:
        over = [s for s in sends if s["pend"] is not None and s["pend"] > cap]
        if over:
            out.append(("capacity_exceeded", f"pending_items {over[0]['pend']} > capacity {cap} after accepting {over[0]['v']}"))
    refusals = [s for s in sends if not s["ok"]]
    for s in refusals:
        if s["ph"] <= 3 and cap == 0:
            out.append(("unbounded_send_refused", f"send of {s['v']} (phase {s['ph']}, blocking={s['blocking']}) was refused although the queue is unbounded and the run had not been stopped"))
            break
        if s["ph"] <= 3 and s["blocking"] and s["ph"] != 2:
            out.append(("blocking_send_failed_before_stop", f"blocking send of {s['v']} in phase {s['ph']} returned false before any stop"))
            break
    # a send that STARTED after request_stop() had returned can never be delivered: it must be refused
    if stop_req is not None:
        late = [s for s in sends if s["ok"] and s["sb"] > stop_req["sa"]]
        if late:
            out.append(("accepted_after_stop_request", f"send of {late[0]['v']} (blocking={late[0]['blocking']}) started at seq {late[0]['sb']}, after request_stop() had returned (seq {stop_req['sa']}), and was accepted; delivered {flat[-6:]}"))
    post = [s for s in sends if s["ph"] == 5 and s["ok"]]
    if post:
        out.append(("accepted_after_stop", f"send of {post[0]['v']} was accepted after run() had returned"))
    # exact count while latched
    if latch_info and latch_info["latched"] and cap > 0 and not case.get("second") and not case.get("loopback"):   # (the controller's counters span both sources)
        pending = latch_info["accepted"] - latch_info["delivered"]
        ph2 = [s for s in sends if s["ph"] == 2]
        exp_acc = max(0, min(len(ph2), cap - pending))
        got_acc = sum(1 for s in ph2 if s["ok"])
        if got_acc != exp_acc:
            out.append(("latched_acceptance_count", f"with the consumer latched, capacity {cap} and {pending} pending, {len(ph2)} non-blocking sends were issued: {got_acc} accepted, expected exactly {exp_acc}"))
    if latch_info and latch_info["latched"] and cap == 0:
        if any(not s["ok"] for s in sends if s["ph"] == 2):
            out.append(("unbounded_send_refused", "a send was refused while latched although the queue is unbounded"))
    for clause, msg in out[:3]:
        res.violations.append(Viol(clause, msg, feats))
    for clause, msg in out2[:1]:
        res.violations.append(Viol(clause, msg, dict(feats, second_source=True)))
    if case.get("second"):
        res.labels.append("two_push_sources")
    n_prod = len(case["producers"])
    res.nontrivial = n_prod >= 2 and cap > 0 and bool(refusals) and any(s["ph"] == 3 for s in sends)
    res.labels.append("policy_" + policy)
    res.labels.append(f"cap_{cap}")
    if latch_info and latch_info["latched"]:
        res.labels.append("latched_phase")
    if any(s["ph"] <= 4 for s in refusals):
        res.labels.append("refusal_while_running")
    if any(s["ph"] == 4 for s in sends):
        res.labels.append("stop_race")
    if any(s["blocking"] for s in sends):
        res.labels.append("blocking_sends")
    if case.get("sink_sleep_us"):
        res.labels.append("slow_consumer")
    if stop_req is not None and any(s["sb"] > stop_req["sa"] and s["ph"] == 4 for s in sends):
        res.labels.append("send_started_after_stop_request_returned")
    res.summary = {"delivered": flat[:20], "n_sends": len(sends), "n_accepted": len(accepted), "drains": [d[2] for d in drains]}
    return res
