"""C02 — simulation honours every scheduled wake-up at exactly its time, in order."""
from __future__ import annotations

from hypothesis import strategies as st

from hgv import gen
from hgv.runner import Result, Viol
from hgv.schedmodel import Walk
from hgv.worker import HarnessError, Rejected

ID = "C02"
RULE = ("Programs are constructed by Hypothesis from scripted sources, self-scheduling timer nodes (relative/absolute/"
        "tagged requests, cancels, requests during start, for the current cycle, beyond end), an optional feedback loop "
        "and an optional sub-program (own timer + relative source) nested 1-2 deep or under map_-free nesting; random "
        "start/end. A case is non-trivial when >=2 distinct requesters share a wake-up time and at least one request "
        "re-schedules a node earlier than its pending time, or when a request is made from inside a nested child. "
        "Distinct = distinct canonical JSON of the generated program.")
ASSUMPTIONS = ["requests at or before `now` after start are documented as ignored and are modelled as such",
               "a cycle at the time of a request that was later cancelled is tolerated (the statement only forbids cycles nobody asked for)"]


def examples(tier):
    return 4000 if tier == "quick" else 60000


def budget_s(tier):
    return 60 if tier == "quick" else 600


@st.composite
def timer(draw, nid, ins, horizon, start):
    sched = gen.rebase_sched(draw(gen.sched_script(horizon, 0)), start)
    node = {"id": nid, "op": "node", "ins": ins, "out": "TS[int]", "fn": draw(st.sampled_from(["sum", "acc", "count"])),
            "sched": sched, "tags": gen.TAGS, "valid": [], "log_inputs": False}
    if ins and draw(st.integers(0, 2)) == 0:
        # default validity: the node can be woken (tick or timer) while an input is still invalid, i.e. visited but
        # not ready - its pending wake-ups must survive that
        del node["valid"]
    if draw(st.integers(0, 4)) == 0:
        node["schedule_on_start"] = True
    return node


@st.composite
def program(draw, tier):
    big = tier == "thorough"
    start = draw(st.sampled_from([0, 0, 1, 3, 7, 1000003]))
    horizon = draw(st.integers(3, 60 if big else 24))
    end = start + horizon
    stmts, ports, subs = [], [], {}
    for i in range(draw(st.integers(1, 3))):
        script = draw(gen.int_script(start, end + 2, max_size=10 if big else 6))
        stmts.append({"id": f"s{i}", "op": "src", "schema": "TS[int]", "script": script})
        ports.append(f"s{i}")
    for i in range(draw(st.integers(0, 4 if big else 3))):
        nin = draw(st.integers(0, min(2, len(ports))))
        ins = [draw(st.sampled_from(ports)) for _ in range(nin)]
        stmts.append(draw(timer(f"n{i}", ins, horizon, start)))
        ports.append(f"n{i}")
    # optional nested sub-program with its own timer and its own (relative) source
    depth = draw(st.sampled_from([0, 0, 1, 1, 2, 3 if big else 2]))
    if depth:
        body = []
        # the outer input is read actively, passively, or not at all by the inner timer: an outer tick then wakes the
        # nested node without any inner node being scheduled, while an inner timer is pending
        how = draw(st.sampled_from(["active", "active", "passive", "unused"]))
        tin = [{"arg": 0}] if how == "active" else [{"arg": 0, "passive": True}] if how == "passive" else []
        if draw(st.booleans()):
            rel_script = draw(gen.int_script(0, horizon, max_size=4))
            body.append({"id": "is", "op": "src", "schema": "TS[int]", "script": rel_script, "rel": True})
            tin.append("is")
        if how != "active" and "is" not in tin:
            body.append({"id": "is", "op": "src", "schema": "TS[int]", "script": draw(gen.int_script(0, horizon, max_size=4, min_size=1)), "rel": True})
            tin.append("is")
        # optionally a second argument that the inner timer reads actively while the nested NODE does not listen to it: its
        # ticks reach the child out of band (push half of nested scheduling) while inner timers are pending
        two = draw(st.integers(0, 2)) == 0
        if two:
            tin.append({"arg": 1})
        tnode = draw(timer("t", tin, horizon, start))
        if how == "passive" or two:
            tnode["valid"] = []      # a passive / out-of-band, possibly still invalid outer input must not gate the timer
        body.append(tnode)
        params = ["TS[int]"] * (2 if two else 1)
        subs["g0"] = {"params": params, "out": "TS[int]", "stmts": body, "ret": "t"}
        for d in range(1, depth):
            subs[f"g{d}"] = {"params": params, "out": "TS[int]",
                             "stmts": [{"id": "inner", "op": "nested", "sub": f"g{d - 1}", "ins": [{"arg": j} for j in range(len(params))],
                                        **({"active": [0]} if two else {})}], "ret": "inner"}
        nest = {"id": "nest", "op": "nested", "sub": f"g{depth - 1}", "ins": [draw(st.sampled_from(ports)) for _ in params]}
        if two:
            nest["active"] = [0]
        stmts.append(nest)
        ports.append("nest")
    # optional dynamic children with their own timers: map_ children come and go with the keys, reduce combiners are
    # created / re-bound / retired as the tree is re-shaped, switch_ branches are replaced - a pending wake-up of a live
    # child must survive all of that, and a stopped child's requests die with it
    dyn = draw(st.sampled_from([None, None, None, "map", "reduce", "switch", "tslmap"]))
    if dyn in ("map", "reduce"):
        from hgv import tsmodel as tm
        opts = {"cancel": True, "multi": True, "no_rewrite": True, "keys": draw(st.sampled_from([3, 5, 9]))}
        dscript = draw(tm.history(("TSD", "int", ("TS", "int")), start, horizon, opts, max_cycles=10 if big else 6))
        if draw(st.booleans()):
            # a burst of keys in one cycle, then sparse single-key events: several children hold pending alarms for different
            # times while another child publishes
            n0 = draw(st.integers(2, 6))
            dscript = [[start, [{"k": "D", "ops": [["set", k, k] for k in range(1, n0 + 1)]}]]]
            t_ = start
            for _ in range(draw(st.integers(1, 4))):
                t_ += draw(st.integers(1, 4))
                if t_ >= end:
                    break
                k = draw(st.integers(1, n0 + 2))
                dscript.append([t_, [{"k": "D", "ops": [["set", k, t_]] if draw(st.integers(0, 4)) or k > n0 else [["erase", k]]}]])
        stmts.append({"id": "dd", "op": "src", "schema": "TSD[int,TS[int]]", "script": dscript})
        def child_timer(ins_):
            # half of the child timers are 'settling' nodes: every input tick (re)arms one tagged alarm, and the node publishes
            # only when that alarm fires - so its parent in a reduction tree is notified in alarm cycles only
            if draw(st.booleans()):
                return {"id": "t", "op": "node", "ins": ins_, "out": "TS[int]", "fn": "count", "valid": [], "log_inputs": False, "emit": "sched_now",
                        "sched": {"tick": [["s", "rel", draw(st.integers(1, 6)), draw(st.sampled_from(["a", None]))]]}, "tags": gen.TAGS}
            return draw(timer("t", ins_, horizon, start))
        if dyn == "map":
            subs["F"] = {"params": ["TS[int]"], "names": ["x"], "out": "TS[int]", "ret": "t", "stmts": [child_timer([{"arg": 0}])]}
            stmts.append({"id": "dyn", "op": "op", "name": "map_", "args": [{"fn": "F"}, {"ts": "dd"}], "has_out": True})
        else:
            subs["C"] = {"params": ["TS[int]", "TS[int]"], "names": ["lhs", "rhs"], "out": "TS[int]", "ret": "t",
                         "stmts": [child_timer([{"arg": 0}, {"arg": 1}])]}
            stmts.append({"id": "dyn", "op": "op", "name": "reduce", "args": [{"fn": "C"}, {"ts": "dd"}], "has_out": True})
        stmts.append({"id": "drec", "op": "node", "ins": ["dyn"], "log_inputs": False, "valid": []})
    elif dyn == "tslmap":
        # map_ over a dynamic list: one element ticks (or the list grows) while the child of another element waits for its alarm
        lscript, top = [], 0
        for t in draw(gen.time_set(start, end - 1, 1, 7)):
            i_ = draw(st.integers(0, min(top + 1, 5)))
            top = max(top, i_)
            lscript.append([t, [{"k": "i", "i": i_, "op": {"k": "set", "v": t}}]])
        stmts.append({"id": "dl", "op": "src", "schema": "TSL[TS[int],0]", "script": lscript})
        tn = {"id": "t", "op": "node", "ins": [{"arg": 0}], "out": "TS[int]", "fn": "count", "valid": [], "log_inputs": False, "emit": "sched_now",
              "sched": {"tick": [["s", "rel", draw(st.integers(1, 6)), draw(st.sampled_from(["a", None]))]]}, "tags": gen.TAGS} if draw(st.booleans()) else draw(timer("t", [{"arg": 0}], horizon, start))
        subs["F"] = {"params": ["TS[int]"], "names": ["x"], "out": "TS[int]", "ret": "t", "stmts": [tn]}
        stmts.append({"id": "dyn", "op": "op", "name": "map_", "args": [{"fn": "F"}, {"ts": "dl"}], "has_out": True})
        stmts.append({"id": "drec", "op": "node", "ins": ["dyn"], "log_inputs": False, "valid": []})
    elif dyn == "switch":
        ks = [[t, [{"k": "set", "v": draw(st.integers(0, 1))}]] for t in draw(gen.time_set(start, end - 1, 1, 5))]
        stmts.append({"id": "skey", "op": "src", "schema": "TS[int]", "script": ks})
        for b in ("B0", "B1"):
            subs[b] = {"params": ["TS[int]"], "names": ["x"], "out": "TS[int]", "ret": "t", "stmts": [draw(timer("t", [{"arg": 0}], horizon, start))]}
        stmts.append({"id": "dyn", "op": "op", "name": "switch_", "has_out": True,
                      "args": [{"ts": "skey"}, {"cases": [[0, "B0"], [1, "B1"]], "key_t": "int"}, {"ts": draw(st.sampled_from(ports))}]})
        stmts.append({"id": "drec", "op": "node", "ins": ["dyn"], "log_inputs": False, "valid": []})
    # optional feedback loop: acc = src + passive(fb)
    if draw(st.integers(0, 2)) == 0:
        stmts.append({"id": "fb", "op": "fb", "schema": "TS[int]", **({"init": draw(st.integers(0, 3))} if draw(st.booleans()) else {})})
        passive = draw(st.integers(0, 3)) != 0
        stmts.append({"id": "loop", "op": "node", "ins": [draw(st.sampled_from(ports)), {"r": "fb", "passive": passive}], "out": "TS[int]",
                      "fn": "sum", "valid": [0], "log_inputs": False})
        stmts.append({"id": "fbs", "op": "fb_bind", "fb": "fb", "src": "loop"})
        ports.append("loop")
    stmts.append({"id": "rec", "op": "node", "ins": [draw(st.sampled_from(ports))], "log_inputs": False})
    prog = {"start": start, "end": end, "stmts": stmts}
    if subs:
        prog["subs"] = subs
    return prog


def strategy(tier):
    return program(tier)


def check(case, ctx) -> Result:
    res = Result()
    resp = ctx.run(case)
    res.engine_runs = 1
    if resp.get("crash"):
        res.violations.append(Viol("engine_crash", f"worker died: {resp.get('signal')} {resp.get('stderr', '')[-400:]}"))
        return res
    if not resp.get("built"):
        raise Rejected(f"C02 generator produced a program the tree rejects: {resp.get('error')}")
    if resp.get("error"):
        res.violations.append(Viol("run_failed", f"run() threw on a valid program: {resp['error']}"))
    w = Walk(case, resp).run()
    seen = set()
    for clause, msg, feats in w.viol:
        key = (clause, tuple(sorted(feats.items())))
        if key in seen:
            continue
        seen.add(key)
        res.violations.append(Viol(clause, msg, feats))
    f = w.facts
    res.nontrivial = (f["shared_time"] >= 1 and f["resched_earlier"] >= 1) or f["nested_requests"] >= 1
    for k in ("shared_time", "resched_earlier", "nested_requests", "cancelled", "ignored", "start_requests", "consecutive", "tag_replaced"):
        if f[k]:
            res.labels.append(k)
    if len(w.root_cycles) == 0:
        res.labels.append("no_cycles")
    dynst = next((s_ for s_ in case["stmts"] if s_.get("id") == "dyn"), None)
    if dynst is not None:
        res.labels.append("dynamic_children_" + dynst["name"])
    res.summary = {"root_cycles": w.root_cycles[:40], "facts": f}
    return res
