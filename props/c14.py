"""C14 — every started node is stopped exactly once, in reverse order, whatever fails."""
from __future__ import annotations

import copy

from hypothesis import strategies as st

from hgv import gen
from hgv import tsmodel as tm
from hgv.runner import Result, Viol
from hgv.worker import HarnessError, Rejected

ID = "C14"
ASAN_THOROUGH = True   # thorough tier runs against the AddressSanitizer build
LEVEL = "fault_enumeration"
RULE = ("Programs of 2-6 chained harness nodes (a self-ticking source first), optionally with a sub-program nested 1-2 deep, a map_ over a "
        "scripted dictionary whose children are alive when the fault hits, or a switch_ with live branch; a fault plan of 1-2 scripted "
        "exceptions (node x phase in {start, evaluate, stop} x occurrence), cleanup_on_error on/off, optionally a request_stop from a "
        "node. The lifecycle log of every graph (root and children) is checked: starts in index order, stops in reverse, exactly one stop "
        "per completed start no later than run() returns (or executor release when clean-up is off), no evaluation outside "
        "[start, stop], a failed start stops exactly the started prefix, a failing stop does not prevent the others, the error reaching "
        "the caller is the first one and names the failing node and phase. Non-trivial = a fault while a dynamic child (map_/switch_/"
        "nested) is alive, or a fault pair. Distinct = canonical JSON of the case.")
ASSUMPTIONS = ["a node whose own start threw is not owed a stop (its start did not complete)"]


def examples(tier):
    return 4000 if tier == "quick" else 60000


def budget_s(tier):
    return 80 if tier == "quick" else 600


def ticking_source(nid):
    return {"id": nid, "op": "node", "ins": [], "out": "TS[int]", "fn": "count", "schedule_on_start": True,
            "sched": {"every": [["s", "rel", 1, None]]}, "log_inputs": False}


@st.composite
def case(draw, tier):
    big = tier == "thorough"
    horizon = draw(st.integers(3, 14 if big else 8))
    shape = draw(st.sampled_from(["flat", "flat", "nested", "map", "switch", "reduce", "tslmap", "oreduce", "mesh"]))
    n = draw(st.integers(2, 6))
    stmts = [ticking_source("n0")]
    subs = {}
    targets = ["n0"]          # labels that can carry a fault
    prev = "n0"
    for i in range(1, n):
        stmts.append({"id": f"n{i}", "op": "node", "ins": [prev], "out": "TS[int]", "fn": "sum", "log_inputs": False})
        targets.append(f"n{i}")
        prev = f"n{i}"
    if shape == "nested":
        depth = draw(st.integers(1, 2))
        body = [{"id": "t0", "op": "node", "ins": [{"arg": 0}], "out": "TS[int]", "fn": "sum", "log_inputs": False},
                {"id": "t1", "op": "node", "ins": ["t0"], "out": "TS[int]", "fn": "acc", "log_inputs": False}]
        subs["G"] = {"params": ["TS[int]"], "out": "TS[int]", "stmts": body, "ret": "t1"}
        top = "G"
        if depth == 2:
            subs["W"] = {"params": ["TS[int]"], "out": "TS[int]", "stmts": [{"id": "inner", "op": "nested", "sub": "G", "ins": [{"arg": 0}]}], "ret": "inner"}
            top = "W"
        stmts.append({"id": "nest", "op": "nested", "sub": top, "ins": [prev]})
        stmts.append({"id": "after", "op": "node", "ins": ["nest"], "log_inputs": False})
        targets += [("W.G." if depth == 2 else "G.") + x for x in ("t0", "t1")] + ["after"]
    elif shape == "map":
        subs["F"] = {"params": ["TS[int]"], "names": ["x"], "out": "TS[int]", "ret": "f1", "stmts": [
            {"id": "f0", "op": "node", "ins": [{"arg": 0}], "out": "TS[int]", "fn": "sum", "log_inputs": False},
            {"id": "f1", "op": "node", "ins": ["f0"], "out": "TS[int]", "fn": "acc", "log_inputs": False}]}
        nk0 = draw(st.integers(1, 4))
        # optionally ONE child of the first generation (not the one in the lowest slot) fails in its start: its element is negative
        neg_key = draw(st.integers(1, nk0 - 1)) if nk0 >= 2 and draw(st.integers(0, 3)) == 0 else None
        script = [[0, [{"k": "D", "ops": [["set", k, -5 if k == neg_key else k] for k in range(nk0)]}]]]
        if neg_key is not None:
            subs["F"]["stmts"][0]["throw"] = {"start_neg": True}
        for t in range(1, horizon):
            if draw(st.booleans()):
                k = draw(st.integers(0, 4))
                # removals leave holes below surviving keys' slots; re-adds reuse them
                script.append([t, [{"k": "D", "ops": [["erase", k]] if draw(st.integers(0, 2)) == 0 else [["set", k, t]]}]])
        stmts.append({"id": "d", "op": "src", "schema": "TSD[int,TS[int]]", "script": script})
        stmts.append({"id": "m", "op": "op", "name": "map_", "args": [{"fn": "F"}, {"ts": "d"}], "has_out": True})
        stmts.append({"id": "after", "op": "node", "ins": ["m"], "log_inputs": False, "valid": []})
        targets += ["F.f0", "F.f1", "after"]
    elif shape == "switch":
        fwd = draw(st.integers(0, 2)) == 0     # branches that END in a nested graph node: the switch output forwards to the child's terminal
        if fwd:
            for nb in ("N0", "N1"):
                subs[nb] = {"params": ["TS[int]"], "out": "TS[int]", "ret": "i0",
                            "stmts": [{"id": "i0", "op": "node", "ins": [{"arg": 0}], "out": "TS[int]", "fn": "count", "log_inputs": False}]}
        for b in ("B0", "B1"):
            subs[b] = {"params": ["TS[int]"], "names": ["x"], "out": "TS[int]", "ret": "s1", "stmts": [
                {"id": "s0", "op": "node", "ins": [{"arg": 0}], "out": "TS[int]", "fn": "sum", "log_inputs": False},
                {"id": "s1", "op": "nested", "sub": "N" + b[1], "ins": ["s0"]} if fwd else
                {"id": "s1", "op": "node", "ins": ["s0"], "out": "TS[int]", "fn": "count", "log_inputs": False}]}
        ks = [[t, [{"k": "set", "v": draw(st.integers(0, 1))}]] for t in sorted(draw(st.sets(st.integers(0, horizon - 1), min_size=1, max_size=4)))]
        if ks[0][0] != 0:
            ks.insert(0, [0, [{"k": "set", "v": 0}]])
        ks[0][1][0]["v"] = 0
        if horizon >= 3 and not any(o[1][0]["v"] == 1 for o in ks) and draw(st.booleans()):
            ks.append([max(k_[0] for k_ in ks) + 1, [{"k": "set", "v": 1}]])     # a switch-over to the other branch while B0 is alive
        stmts.append({"id": "key", "op": "src", "schema": "TS[int]", "script": ks})
        stmts.append({"id": "sw", "op": "op", "name": "switch_", "args": [{"ts": "key"}, {"cases": [[0, "B0"], [1, "B1"]], "key_t": "int"}, {"ts": prev}], "has_out": True})
        stmts.append({"id": "after", "op": "node", "ins": ["sw"], "log_inputs": False, "valid": []})
        targets += (["B0.s0", "B1.s0", "B0.N0.i0", "B1.N1.i0", "after"] if fwd else ["B0.s0", "B0.s1", "B1.s0", "B1.s1", "after"])
    elif shape == "reduce":
        subs["C"] = {"params": ["TS[int]", "TS[int]"], "names": ["lhs", "rhs"], "out": "TS[int]", "ret": "c1", "stmts": [
            {"id": "c0", "op": "node", "ins": [{"arg": 0}], "out": "TS[int]", "fn": "sum", "log_inputs": False},
            {"id": "c1", "op": "node", "ins": ["c0", {"arg": 1}], "out": "TS[int]", "fn": "sum", "log_inputs": False}]}
        script = [[0, [{"k": "D", "ops": [["set", k, k + 1] for k in range(draw(st.integers(2, 6)))]}]]]
        for t in range(1, horizon):
            if draw(st.booleans()):
                k = draw(st.integers(0, 6))
                script.append([t, [{"k": "D", "ops": [["set", k, t]] if draw(st.integers(0, 3)) else [["erase", k]]}]])
        stmts.append({"id": "d", "op": "src", "schema": "TSD[int,TS[int]]", "script": script})
        stmts.append({"id": "red", "op": "op", "name": "reduce", "args": [{"fn": "C"}, {"ts": "d"}] + ([{"sc": 100, "t": "int"}] if draw(st.booleans()) else []), "has_out": True})
        stmts.append({"id": "after", "op": "node", "ins": ["red"], "log_inputs": False, "valid": []})
        targets += ["C.c0", "C.c1", "after"]
    elif shape == "tslmap":
        # map_ over a dynamic (grow-only) list: children appear while the run is going (runtime/tsl_map_node.cpp)
        subs["F"] = {"params": ["TS[int]"], "names": ["x"], "out": "TS[int]", "ret": "f1", "stmts": [
            {"id": "f0", "op": "node", "ins": [{"arg": 0}], "out": "TS[int]", "fn": "sum", "log_inputs": False},
            {"id": "f1", "op": "node", "ins": ["f0"], "out": "TS[int]", "fn": "acc", "log_inputs": False}]}
        script, top = [], 0
        for t in range(0, horizon):
            if t == 0 or draw(st.booleans()):
                i = draw(st.integers(0, min(top + 2, 9)))
                top = max(top, i)
                script.append([t, [{"k": "i", "i": i, "op": {"k": "set", "v": t}}]])
        stmts.append({"id": "d", "op": "src", "schema": "TSL[TS[int],0]", "script": script})
        stmts.append({"id": "m", "op": "op", "name": "map_", "args": [{"fn": "F"}, {"ts": "d"}], "has_out": True})
        stmts.append({"id": "after", "op": "node", "ins": ["m"], "log_inputs": False, "valid": []})
        targets += ["F.f0", "F.f1", "after"]
    elif shape == "oreduce":
        # ordered (left-fold) reduce over a contiguous TSD[int, TS[int]] with a live zero: every length change rebuilds the
        # chain of combiner graphs in the other bank and retires the old chain (runtime/ordered_reduce_node.cpp)
        subs["C"] = {"params": ["TS[int]", "TS[int]"], "names": ["lhs", "rhs"], "out": "TS[int]", "ret": "c1", "stmts": [
            {"id": "c0", "op": "node", "ins": [{"arg": 0}], "out": "TS[int]", "fn": "sum", "log_inputs": False},
            {"id": "c1", "op": "node", "ins": ["c0", {"arg": 1}], "out": "TS[int]", "fn": "sum", "log_inputs": False}]}
        length = draw(st.integers(1, 4))
        script = [[0, [{"k": "D", "ops": [["set", k, k + 1] for k in range(length)]}]]]
        for t in range(1, horizon):
            r = draw(st.integers(0, 5))
            if r == 0 and length > 0:
                length -= 1
                script.append([t, [{"k": "D", "ops": [["erase", length]]}]])
            elif r == 1 and length < 7:
                script.append([t, [{"k": "D", "ops": [["set", length, t]]}]])
                length += 1
            elif r == 2 and length > 0:
                script.append([t, [{"k": "D", "ops": [["set", draw(st.integers(0, length - 1)), t]]}]])
        stmts.append({"id": "d", "op": "src", "schema": "TSD[int,TS[int]]", "script": script})
        stmts.append({"id": "z", "op": "src", "schema": "TS[int]", "script": [[0, [{"k": "set", "v": 100}]]]})
        stmts.append({"id": "red", "op": "op", "name": "reduce", "has_out": True,
                      "args": [{"fn": "C"}, {"ts": "d"}, {"ts": "z"}, {"sc": False, "t": "bool", "name": "is_associative"}]})
        stmts.append({"id": "after", "op": "node", "ins": ["red"], "log_inputs": False, "valid": []})
        targets += ["C.c0", "C.c1", "after"]
    elif shape == "mesh":
        # mesh_: instances read a sibling through mesh_(F)[link]; keys only appear
        subs["F"] = {"params": ["TS[int]", "TS[int]"], "names": ["val", "link"], "out": "TS[int]", "ret": "f1", "stmts": [
            {"id": "dep", "op": "mesh_ref", "key": {"arg": 1}, "schema": "TS[int]"},
            {"id": "f0", "op": "node", "ins": [{"arg": 0}, "dep"], "valid": [0], "out": "TS[int]", "fn": "sum", "log_inputs": False},
            {"id": "f1", "op": "node", "ins": ["f0"], "out": "TS[int]", "fn": "acc", "log_inputs": False}]}
        nk = draw(st.integers(1, 4))
        vscript = [[0, [{"k": "D", "ops": [["set", k, k] for k in range(1, nk + 1)]}]]]
        lscript = []
        for t in range(1, horizon):
            r = draw(st.integers(0, 3))
            if r == 0:
                vscript.append([t, [{"k": "D", "ops": [["set", draw(st.integers(1, nk + 1)), t]]}]])
            elif r == 1 and nk >= 2:
                k = draw(st.integers(2, nk))
                lscript.append([t, [{"k": "D", "ops": [["set", k, draw(st.integers(1, k - 1))]]}]])
        stmts.append({"id": "mv", "op": "src", "schema": "TSD[int,TS[int]]", "script": vscript})
        stmts.append({"id": "ml", "op": "src", "schema": "TSD[int,TS[int]]", "script": lscript})
        stmts.append({"id": "m", "op": "op", "name": "mesh_", "args": [{"fn": "F"}, {"ts": "mv"}, {"ts": "ml"}], "has_out": True})
        stmts.append({"id": "after", "op": "node", "ins": ["m"], "log_inputs": False, "valid": []})
        targets += ["F.f0", "F.f1", "after"]
    nfaults = draw(st.sampled_from([0, 1, 1, 1, 2, 2]))
    faults = []
    if shape == "switch" and draw(st.integers(0, 2)) == 0:
        # a start fault in the branch that is switched TO while the other branch is still alive
        faults.append({"node": draw(st.sampled_from([t for t in targets if t.startswith("B1.")])), "phase": "start", "ord": 0})
        nfaults = max(0, nfaults - 1)
    for _ in range(nfaults):
        faults.append({"node": draw(st.sampled_from(targets)), "phase": draw(st.sampled_from(["start", "eval", "eval", "stop", "stop"])),
                       "ord": draw(st.integers(0, 4))})
    stop_req = None
    if draw(st.integers(0, 4)) == 0:
        stop_req = {"node": draw(st.sampled_from([t for t in targets if "." not in t])), "ord": draw(st.integers(0, 3))}
    # node-level error capture switched on for one root node that has no evaluate fault planned: the derived capturing node type
    # must keep the node's own start / stop hooks
    errcap = None
    free = [t for t in targets if "." not in t and t != "after" and not any(f["node"] == t and f["phase"] == "eval" for f in faults)]
    if free and draw(st.integers(0, 3)) == 0:
        errcap = draw(st.sampled_from(free))
        stmts.append({"id": "ec", "op": "errcap", "of": errcap})
        stmts.append({"id": "ecr", "op": "node", "ins": ["ec"], "log_inputs": False, "valid": []})
    return {"errcap": errcap, "end": horizon, "stmts": stmts, "subs": subs, "faults": faults, "cleanup": draw(st.booleans()), "stop_req": stop_req, "shape": shape}


def strategy(tier):
    return case(tier)


def build(case):
    stmts = copy.deepcopy(case["stmts"])
    subs = copy.deepcopy(case["subs"])

    def find(label):
        parts = label.split(".")
        if len(parts) == 1:
            return next(s for s in stmts if s.get("id") == label)
        return next(s for s in subs[parts[-2]]["stmts"] if s.get("id") == parts[-1])
    for f in case["faults"]:
        s = find(f["node"])
        thr = s.setdefault("throw", {})
        if f["phase"] == "start":
            thr["start"] = True
        elif f["phase"] == "stop":
            thr["stop"] = True
        else:
            thr.setdefault("ord", []).append(f["ord"])
    if case["stop_req"]:
        find(case["stop_req"]["node"])["stop_at_ord"] = case["stop_req"]["ord"]
    prog = {"start": 0, "end": case["end"], "stmts": stmts, "cleanup_on_error": case["cleanup"]}
    if subs:
        prog["subs"] = subs
    return prog


def check(case, ctx) -> Result:
    res = Result()
    prog = build(case)
    resp = ctx.run(prog)
    if resp.get("crash"):
        res.violations.append(Viol("engine_crash", f"worker died {resp.get('signal')} {resp.get('stderr', '')[-500:]}"))
        return res
    if not resp.get("built"):
        raise Rejected(f"C14 generator produced a program the tree rejects: {resp.get('error')}")
    trace = resp["trace"]
    err = resp.get("error")
    feats = {"shape": case["shape"], "cleanup": case["cleanup"], "phases": ",".join(sorted({f["phase"] for f in case["faults"]})), "n_faults": len(case["faults"])}
    # ---- walk the lifecycle log
    started, stopped_n = {}, {}         # (gid, idx) -> count
    start_order, stop_order = {}, {}    # gid -> [idx...]
    label = {}
    user_fail = []                      # (phase, label) in the order user code threw
    alive_dynamic_at_first_fault = None
    live_graphs = set()
    pos_run_returned = pos_released = None
    first_fault_pos = None
    starting = {}
    out = []
    evaluating_ok = {}
    for pos, e in enumerate(trace):
        k = e[0]
        if k == "phase":
            if e[1] == "run_returned":
                pos_run_returned = pos
            elif e[1] == "released":
                pos_released = pos
        elif k == "gs" and isinstance(e[1], str):
            live_graphs.add(e[1])
        elif k == "gp" and isinstance(e[1], str):
            live_graphs.discard(e[1])
        elif k == "nS":
            key = (e[1], e[2])
            label[key] = e[3]
            start_order.setdefault(e[1], []).append(e[2])
        elif k == "ns":
            key = (e[1], e[2])
            started[key] = started.get(key, 0) + 1
        elif k == "nP":
            key = (e[1], e[2])
            stop_order.setdefault(e[1], []).append(e[2])
            stopped_n[key] = stopped_n.get(key, 0) + 1
            if not started.get(key):
                out.append(("stop_without_start", f"node {label.get(key, key)} in {e[1]} was stopped but its start never completed"))
        elif k == "nE":
            key = (e[1], e[2])
            if not started.get(key) or stopped_n.get(key, 0) >= started.get(key, 0):
                out.append(("evaluated_outside_lifetime", f"node {label.get(key, key)} in {e[1]} evaluated {'before its start' if not started.get(key) else 'after its stop'}"))
        elif k in ("nsf", "npf"):
            if first_fault_pos is None:
                first_fault_pos = pos
                alive_dynamic_at_first_fault = len([g for g in live_graphs if g != "r"])
        elif k == "ev" and len(e) > 7 and isinstance(e[7], dict) and e[7].get("throw"):
            if first_fault_pos is None:
                first_fault_pos = pos
                alive_dynamic_at_first_fault = len([g for g in live_graphs if g != "r"])
    limit = pos_run_returned if case["cleanup"] or err is None else pos_released
    # stops must have happened by `limit`
    stopped_by = {}
    for pos, e in enumerate(trace):
        if e[0] == "nP" and (limit is None or pos < limit):
            key = (e[1], e[2])
            stopped_by[key] = stopped_by.get(key, 0) + 1
    for key, n in started.items():
        s_all = stopped_n.get(key, 0)
        s_lim = stopped_by.get(key, 0)
        where = "root" if key[0] == "r" else "child"
        if s_all > n:
            out.append(("stopped_twice", f"node {label.get(key, key)} in {key[0]} started {n}x but stopped {s_all}x"))
        elif s_all < n:
            out.append(("never_stopped", f"node {label.get(key, key)} in {key[0]} completed its start but was never stopped (not even at executor release)", {"where": where}))
        elif s_lim < n:
            out.append(("stopped_too_late", f"node {label.get(key, key)} in {key[0]} was stopped only after {'run() returned' if case['cleanup'] or err is None else 'the executor was released'}", {"where": where}))
    # the node's OWN stop code ran as often as its own start code completed (the observer's stop events above are the engine's
    # view; a node type that lost its stop hook still produces them)
    u_started, u_stopped = {}, {}
    failed_user_start = set()
    for pos, e in enumerate(trace):
        if e[0] == "us":
            u_started[(e[1], e[2])] = u_started.get((e[1], e[2]), 0) + 1
            label.setdefault((e[1], e[2]), e[3])
        elif e[0] == "nsf":
            if u_started.get((e[1], e[2])):
                u_started[(e[1], e[2])] -= 1          # that start threw: no stop is owed for it
        elif e[0] == "up" and (limit is None or pos < limit):
            u_stopped[(e[1], e[2])] = u_stopped.get((e[1], e[2]), 0) + 1
    for key, n in u_started.items():
        if n > 0 and u_stopped.get(key, 0) < n and not any(o[0] in ("never_stopped", "stopped_too_late") for o in out):
            out.append(("stop_hook_not_run", f"node {label.get(key, key)} in {key[0]}: its start code completed {n}x but its stop code ran {u_stopped.get(key, 0)}x by the time {'run() returned' if case['cleanup'] or err is None else 'the executor was released'}", {"where": "root" if key[0] == "r" else "child", "errcap": label.get(key) == case.get("errcap")}))
            break
    for gid, order in start_order.items():
        if any(b <= a for a, b in zip(order, order[1:])):
            # a graph whose memory slot is reused restarts from 0: split on restarts
            runs, cur = [], []
            for i in order:
                if cur and i <= cur[-1]:
                    runs.append(cur); cur = []
                cur.append(i)
            runs.append(cur)
            if any(r != sorted(r) for r in runs):
                out.append(("start_order", f"graph {gid}: nodes started in order {order}"))
    for gid, order in stop_order.items():
        if any(b >= a for a, b in zip(order, order[1:])):
            out.append(("stop_order", f"graph {gid}: nodes stopped in order {order} (not the reverse of the start order)"))
    # ---- the error reaching the caller
    exp_first = expected_first_fault(case, trace)
    # was the first failure a stop inside a child graph that was retired while the run was still going?
    midrun_child_stop = False
    root_stopping = False
    for e in trace:
        if e[0] == "gP" and e[1] == "r":
            root_stopping = True
        if e[0] == "npf":
            midrun_child_stop = (e[1] != "r") and not root_stopping
            break
        if e[0] == "nsf" or (e[0] == "ev" and len(e) > 7 and isinstance(e[7], dict) and e[7].get("throw")):
            break
    feats["first_fault_midrun_child_stop"] = midrun_child_stop
    if exp_first is not None:
        if err is None:
            out.append(("error_swallowed", f"user code of {exp_first[1]} threw in {exp_first[0]} but run() returned normally"))
        else:
            what = str(err.get("what", ""))
            phase_word = {"start": "start", "eval": "evaluate", "stop": "stop"}[exp_first[0]]
            leaf = exp_first[1]
            if f"boom:{leaf}:" not in what.replace("boom:" + leaf.split(".")[-1], "boom:" + leaf) and f"'{leaf}'" not in what and leaf.split(".")[-1] not in what:
                out.append(("error_does_not_name_node", f"the first failing node is {leaf} ({phase_word}) but the error is: {what[:300]}"))
            elif f":{exp_first[0]}" not in what and phase_word not in what:
                out.append(("error_not_the_first", f"the first failure was {leaf} in {phase_word} but the error reaching the caller is: {what[:300]}"))
    elif err is not None:
        out.append(("unexpected_error", f"no scripted fault fired but run() threw: {str(err)[:300]}"))
    for item in out[:3]:
        clause, msg = item[0], item[1]
        f2 = dict(feats)
        if len(item) > 2:
            f2.update(item[2])
        res.violations.append(Viol(clause, msg, f2))
    fired = sum(1 for e in trace if (e[0] in ("nsf", "npf")) or (e[0] == "ev" and len(e) > 7 and isinstance(e[7], dict) and e[7].get("throw")))
    res.nontrivial = (fired >= 1 and bool(alive_dynamic_at_first_fault)) or fired >= 2
    if fired:
        res.labels.append(f"faults_fired_{min(fired, 3)}")
    else:
        res.labels.append("no_fault_fired")
    res.labels.append("shape_" + case["shape"])
    res.labels.append("cleanup_on" if case["cleanup"] else "cleanup_off")
    if alive_dynamic_at_first_fault:
        res.labels.append("dynamic_child_alive_at_fault")
    if case["stop_req"]:
        res.labels.append("request_stop")
    if case.get("errcap"):
        res.labels.append("error_capture_on_a_node_with_hooks")
    for f in case["faults"]:
        res.labels.append("plan_" + f["phase"])
    res.summary = {"faults": case["faults"], "error": str((err or {}).get("what", ""))[:160], "started": len(started)}
    return res


def expected_first_fault(case, trace):
    """(phase, label) of the first user-code exception actually thrown, read from the harness nodes' own logs."""
    last_user = {}
    for e in trace:
        k = e[0]
        if k == "us":
            last_user[(e[1], e[2])] = ("start", e[3])
        elif k == "up":
            last_user[(e[1], e[2])] = ("stop", e[3])
        elif k == "ev" and len(e) > 7 and isinstance(e[7], dict) and e[7].get("throw"):
            return ("eval", e[3])
        elif k == "nsf":
            lu = last_user.get((e[1], e[2]))
            if lu and lu[0] == "start":
                return lu
        elif k == "npf":
            lu = last_user.get((e[1], e[2]))
            if lu and lu[0] == "stop":
                return lu
    return None
