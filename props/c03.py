"""C03 — user code runs exactly when an active input ticked (or an own wake-up is due) and required inputs are valid,
and then reads the latest values."""
from __future__ import annotations

from hypothesis import strategies as st

from hgv import gen
from hgv.model import Model
from hgv.runner import Result, Viol
from hgv.trace import Trace
from hgv.worker import HarnessError, Rejected

ID = "C03"
RULE = ("Programs of 2-4 scripted TS[int] sources (becoming valid at different times, ticking together, alone, or stopping), "
        "optional structural TSL/TSB inputs and 2-6 chained logging compute/sink nodes with random active / valid / all_valid "
        "selectors, wiring-time passive tags and self-scheduling scripts. The reference model (hgv/model.py) computes the exact set "
        "of evaluations and what each reads/writes; the node's own invocation log must equal it in both directions. Non-trivial = "
        "the history contains at least two of: a passive input ticking alone, an active tick while a required input is still "
        "invalid, two active inputs ticking in one cycle, a scheduler wake-up coinciding with an input tick. Distinct = canonical "
        "JSON of the program.")
ASSUMPTIONS = ["explicit invalidation is out of this property's histories (C04 owns it)",
               "REF-shaped inputs are excluded (C13 owns them)",
               "a non-peered TSL/TSB input is 'valid' when any child is and 'all_valid' when all are (developer guide)"]


def examples(tier):
    return 6000 if tier == "quick" else 100000


def budget_s(tier):
    return 70 if tier == "quick" else 600


@st.composite
def program(draw, tier):
    big = tier == "thorough"
    start = draw(st.sampled_from([0, 0, 4, 100000]))
    horizon = draw(st.integers(4, 40 if big else 18))
    end = start + horizon
    stmts, ports, structs = [], [], []
    pool = draw(gen.time_set(start, end - 1, 2, 9 if big else 6))
    nsrc = draw(st.integers(2, 4))
    for i in range(nsrc):
        # each source takes a window of the shared pool: late starters, early stoppers, common ticks
        lo = draw(st.integers(0, len(pool) - 1))
        hi = draw(st.integers(lo, len(pool)))
        times = [t for t in pool[lo:hi] if draw(st.integers(0, 3)) != 0]
        stmts.append({"id": f"s{i}", "op": "src", "schema": "TS[int]",
                      "script": [[t, [{"k": "set", "v": draw(st.integers(-9, 9))}]] for t in times]})
        ports.append(f"s{i}")
    for i in range(draw(st.integers(0, 2))):
        k = draw(st.integers(2, 3))
        ins = [draw(st.sampled_from(ports)) for _ in range(k)]
        schema = f"TSL[TS[int],{k}]" if draw(st.booleans()) else "TSB[" + ",".join(f"f{j}:TS[int]" for j in range(k)) + "]"
        stmts.append({"id": f"L{i}", "op": "struct", "schema": schema, "ins": ins})
        structs.append(f"L{i}")
    nn = draw(st.integers(2, 8 if big else 6))
    for i in range(nn):
        cand = ports + structs
        nin = draw(st.integers(1, min(3, len(cand))))
        refs, raw = [], []
        for _ in range(nin):
            p = draw(st.sampled_from(cand))
            raw.append(p)
            refs.append({"r": p, "passive": True} if draw(st.integers(0, 4)) == 0 else p)
        node = {"id": f"n{i}", "op": "node", "ins": refs, "fn": draw(st.sampled_from(["sum", "sum", "acc", "count"])),
                "coef": [draw(st.integers(1, 3)) for _ in refs], "bias": draw(st.integers(0, 4)), "deep": False}
        sink = i == nn - 1 or draw(st.integers(0, 5)) == 0
        if not sink:
            node["out"] = "TS[int]"
        sel = draw(st.integers(0, 9))
        idx = list(range(nin))
        if sel in (0, 1):
            node["active"] = draw(st.lists(st.sampled_from(idx), unique=True, max_size=nin))
        if sel in (1, 2, 3):
            node["valid"] = draw(st.lists(st.sampled_from(idx), unique=True, max_size=nin))
        # engine precondition: passive tags may not deactivate every otherwise-active input
        act = set(idx) if node.get("active") is None else set(node["active"])
        pas = {k for k, r in enumerate(refs) if isinstance(r, dict)}
        if act and not (act - pas):
            keep = min(act)
            refs[keep] = raw[keep]
        av = [k for k, p in enumerate(raw) if p in structs]
        if av and draw(st.booleans()):
            node["all_valid"] = draw(st.lists(st.sampled_from(av), unique=True, min_size=1, max_size=len(av)))
        if draw(st.integers(0, 2)) == 0:
            node["sched"] = gen.rebase_sched(draw(gen.sched_script(horizon, 0, max_ops=2)), start)
            node["tags"] = gen.TAGS
            if not sink and draw(st.integers(0, 3)) == 0:
                node["emit"] = "sched_now"
        if draw(st.integers(0, 7)) == 0:
            node["schedule_on_start"] = True
        # run-time make_passive() / make_active() on plain (peered, non-structural) inputs, issued by the node itself at the
        # end of chosen evaluations (what until_true / take do): effective from the next cycle
        plain = [k for k, pth in enumerate(raw) if pth not in structs]
        if plain and draw(st.integers(0, 3)) == 0:
            tg = {}
            for _ in range(draw(st.integers(1, 3))):
                tg.setdefault(str(draw(st.integers(0, 4))), []).append([draw(st.sampled_from(plain)), draw(st.sampled_from(["p", "p", "a"]))])
            node["toggle"] = tg
        if draw(st.integers(0, 3)) == 0:
            node["via_unique"] = True     # wired through Wiring::add_unique_node (never interned) instead of add_node
        # a quarter of the eligible nodes are wired as real static nodes (static_node.h selector / injection code)
        int_ports = [p for p in ports if p not in structs]
        if not sink and int_ports and draw(st.integers(0, 3)) == 0:
            kind = draw(st.sampled_from(["sum2", "sum2_pb", "sum2_ub", "sum2_pub", "acc", "timer"]))
            a = draw(st.sampled_from(int_ports))
            if kind in ("acc", "timer"):
                node = {"id": f"n{i}", "op": "snode", "kind": kind, "ins": [a], "bias": draw(st.integers(1, 5)), "coef": [draw(st.integers(1, 3))]}
            else:
                b_ = draw(st.sampled_from(int_ports))
                if kind in ("sum2", "sum2_ub") and draw(st.booleans()):
                    b_ = {"r": b_, "passive": True}      # a WIRING-TIME passive tag on an input of a real static node
                node = {"id": f"n{i}", "op": "snode", "kind": kind, "ins": [a, b_], "bias": draw(st.integers(0, 4)),
                        "coef": [draw(st.integers(1, 3)), draw(st.integers(1, 3))]}
        stmts.append(node)
        if not sink:
            ports.append(f"n{i}")
    return {"start": start, "end": end, "stmts": stmts}


def strategy(tier):
    return program(tier)


def _classify(prog, model):
    """count the interesting situations in the model history (for the non-trivial rule)."""
    kinds = set()
    ports = model.ports
    by_id = {s["id"]: s for s in prog["stmts"]}
    for t in model.cycles:
        pass
    # recompute per cycle facts from evals + source scripts
    tick = {}
    for s in prog["stmts"]:
        if s["op"] == "src":
            for tt, _ in s["script"]:
                if prog["start"] <= tt < prog["end"]:
                    tick.setdefault(tt, set()).add(s["id"])
    for lbl, evs in model.evals.items():
        for (t, snap, out) in evs:
            tick.setdefault(t, set()).add(lbl) if out is not None else None
    first_tick = {}
    for t in sorted(tick):
        for p in tick[t]:
            first_tick.setdefault(p, t)
    from hgv.schedmodel import snode_equiv
    for s in prog["stmts"]:
        s = snode_equiv(s)
        if s["op"] != "node":
            continue
        ins = s.get("ins", [])
        n = len(ins)
        ids = [r if isinstance(r, str) else r["r"] for r in ins]
        active = set(range(n)) if s.get("active") is None else set(s["active"])
        active -= {k for k, r in enumerate(ins) if isinstance(r, dict) and r.get("passive")}
        ev_times = {e[0] for e in model.evals[s["id"]]}
        for t in sorted(tick):
            mods = [k for k in range(n) if ids[k] in tick[t]]
            if not mods:
                continue
            act = [k for k in mods if k in active]
            if mods and not act:
                kinds.add("passive_alone")
            if len(act) >= 2:
                kinds.add("two_active")
            if act and t not in ev_times:
                kinds.add("active_tick_not_ready")
            if s.get("sched") and act and t in ev_times:
                for e in model.evals[s["id"]]:
                    pass
    return kinds


def check(case, ctx) -> Result:
    res = Result()
    resp = ctx.run(case)
    if resp.get("crash"):
        res.violations.append(Viol("engine_crash", f"worker died: {resp.get('signal')} {resp.get('stderr', '')[-400:]}"))
        return res
    if not resp.get("built"):
        raise Rejected(f"C03 generator produced a program the tree rejects: {resp.get('error')}")
    if resp.get("error"):
        res.violations.append(Viol("run_failed", f"run() threw on a valid program: {resp['error']}"))
        return res
    tr = Trace(resp["trace"])
    got, got_act = {}, {}
    for d in tr.user_evals:
        if d["gid"] != "r" or d["ins"] is None:
            continue
        snap = [(i["v"], i["m"], i["val"] if i["v"] else None) for i in d["ins"]]
        got.setdefault(d["label"], []).append((d["t"], snap, d["x"].get("out")))
        if "act" in d["x"]:
            got_act.setdefault(d["label"], []).append((d["t"], [k for k, a in enumerate(d["x"]["act"]) if a]))

    def compare(model):
        out = []
        for lbl, exp in model.evals.items():
            g = got.get(lbl, [])
            et, gt = [e[0] for e in exp], [e[0] for e in g]
            if et != gt:
                extra = [t for t in gt if t not in set(et)]
                missing = [t for t in et if t not in set(gt)]
                if extra:
                    out.append(Viol("extra_eval", f"node {lbl} ran at {extra[:6]} where the rule says it must not (expected evaluation times {et[:12]}, got {gt[:12]})"))
                if missing:
                    out.append(Viol("missing_eval", f"node {lbl} did not run at {missing[:6]} (expected evaluation times {et[:12]}, got {gt[:12]})"))
                continue
            for e, o in zip(exp, g):
                if e[1] != o[1]:
                    out.append(Viol("stale_or_wrong_input", f"node {lbl} at t={e[0]} read (valid, modified, value) {o[1]} but the latest producer values are {e[1]}"))
                    break
                if e[2] != o[2]:
                    out.append(Viol("wrong_output", f"node {lbl} at t={e[0]} wrote {o[2]} but f(inputs) = {e[2]}"))
                    break
            else:
                if lbl in model.active_log and model.active_log[lbl] != got_act.get(lbl, []):
                    out.append(Viol("active_flag_wrong", f"node {lbl}: after its make_passive()/make_active() calls the inputs answering active() are {got_act.get(lbl, [])[:8]}, expected {model.active_log[lbl][:8]}"))
        return out

    model = Model(case).run()
    strict = compare(model)
    if strict:
        emu = Model(case, emulate_stale_wakeups=True).run()
        rest = compare(emu)
        if not rest:
            # the only deviation from the statement is an evaluation at the time of a wake-up the node had cancelled
            v = strict[0]
            v.features = {"stale_cancelled_wakeup_only": True}
            res.violations.append(v)
            res.labels.append("F1_stale_cancelled_wakeup")
        else:
            for v in rest[:3]:
                v.features = {"stale_cancelled_wakeup_only": False}
                res.violations.append(v)
    kinds = _classify(case, model)
    # scheduler wake-up coinciding with an input tick
    for s in case["stmts"]:
        if s["op"] == "snode" and s["kind"] == "timer":
            res.labels.append("static_timer")
        if s["op"] == "snode":
            res.labels.append("static_node")
        if s["op"] == "node" and s.get("toggle") and any(str(e_) in s["toggle"] for e_ in range(len(model.evals.get(s["id"], [])))):
            res.labels.append("runtime_make_passive_or_active")
            kinds.add("runtime_toggle")
        if s["op"] == "node" and s.get("sched"):
            for d in tr.evals_of(s["id"], "r"):
                q0 = d["x"].get("q0")
                if q0 and q0[2] and any(i["m"] for i in d["ins"]):
                    kinds.add("wake_and_tick")
    for k in kinds:
        res.labels.append(k)
    res.nontrivial = len(kinds) >= 2
    res.summary = {"cycles": model.cycles[:30], "evals": {k: [e[0] for e in v][:12] for k, v in model.evals.items()}}
    return res
