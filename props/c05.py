"""C05 — collection deltas are coherent with collection values at every tick."""
from __future__ import annotations

import copy

import hypothesis
from hypothesis import strategies as st
from hypothesis.stateful import RuleBasedStateMachine, precondition, rule, run_state_machine_as_test

from hgv import tsmodel as tm
from hgv.runner import Result, Viol
from hgv.trace import Trace
from hgv.worker import HarnessError, Rejected

ID = "C05"
ASAN_THOROUGH = True   # thorough tier runs against the AddressSanitizer build
RULE = ("A scripted writer over a random schema (TSS, TSD incl. nested TSD/TSS/TSB/TSL values, TSL, TSB, tick TSW; depth <= 3) applies a "
        "generated mutation history - several mutations per cycle, add-then-remove and remove-then-re-add of one element, set/erase/set "
        "of one key, clear, growth bursts across the 8/16/32 slot boundaries, removal and later re-insertion - observed by a recorder "
        "directly and through a capture_delta->apply_delta mirror node. Histories come from a composite strategy and, for flat TSS/TSD, "
        "from RuleBasedStateMachines. Non-trivial = a cycle containing a cancelling pair, or a re-insertion after a removal in an "
        "earlier cycle, or a live size crossing 8/16/32. Distinct = canonical JSON of (schema, script).")
ASSUMPTIONS = ["payloads shown for never-written (invalid) children of fixed lists/bundles are not compared",
               "an explicit invalidate() is not part of these histories (C04)"]


def examples(tier):
    return 5000 if tier == "quick" else 80000


def budget_s(tier):
    return 75 if tier == "quick" else 600


@st.composite
def case(draw, tier):
    big = tier == "thorough"
    if draw(st.integers(0, 14)) == 0:
        # a tick-count window pushed past its period (evictions), with clear() - alone or followed by a push in the same
        # mutation - at arbitrary points; the element a tick removed must be readable in that tick only
        per = draw(st.integers(1, 5))
        start = draw(st.sampled_from([0, 3]))
        t, script = start, []
        for _ in range(draw(st.integers(4, 16 if big else 11))):
            r = draw(st.integers(0, 6))
            if r == 0:
                script.append([t, [{"k": "wclear"}]])
            elif r == 1:
                script.append([t, [{"k": "wclear", "v": draw(st.integers(0, 99))}]])
            else:
                script.append([t, [{"k": "push", "v": draw(st.integers(0, 99))}]])
            t += draw(st.integers(1, 3))
        return {"schema": ("TSW", "int", per, draw(st.integers(0, 1))), "script": script, "start": start, "end": t + 1}
    if draw(st.integers(0, 11)) == 0:
        # a DURATION window fed at a changing rate: sparse phases let old entries age out (the ring's head moves), dense
        # bursts then hold more entries than ever before (the ring grows while wrapped)
        rng = draw(st.integers(4, 12))
        start = draw(st.sampled_from([0, 3, 70000]))
        t, script = start, []
        for _ in range(draw(st.integers(2, 4))):
            for _ in range(draw(st.integers(2, 5))):                      # sparse
                script.append([t, [{"k": "push", "v": draw(st.integers(0, 99))}]])
                t += draw(st.integers(2, 6))
            for _ in range(draw(st.integers(4, 14 if big else 10))):      # dense
                script.append([t, [{"k": "push", "v": draw(st.integers(0, 99))}]])
                t += 1
        return {"schema": ("TSW", "int", ("dur", rng), 0), "script": script, "start": start, "end": t + 1}
    schema = draw(tm.schemas(3))
    while schema[0] in ("TS",):
        schema = draw(tm.schemas(3))
    start = draw(st.sampled_from([0, 0, 3, 70000]))
    horizon = draw(st.integers(3, 40 if big else 16))
    opts = {"cancel": True, "multi": True, "grow": draw(st.booleans()), "keys": draw(st.sampled_from([4, 8, 12])), "whole": True}
    script = draw(tm.history(schema, start, horizon, opts, max_cycles=16 if big else 8))
    return {"schema": schema, "script": script, "start": start, "end": start + horizon}


@st.composite
def dyn_list_case(draw, tier):
    """a dynamic (unsized) list grown by writes at arbitrary indices, several distinct elements written per cycle"""
    big = tier == "thorough"
    horizon = draw(st.integers(4, 24 if big else 12))
    script, top = [], 0
    from hgv.gen import time_set
    for t in draw(time_set(0, horizon - 1, 1, 10 if big else 6)):
        idx = sorted(draw(st.sets(st.integers(0, min(top + 3, 12)), min_size=1, max_size=5)))
        top = max(top, idx[-1])
        script.append([t, [{"k": "i", "i": i, "op": {"k": "set", "v": draw(st.integers(-3, 30))}} for i in idx]])
    return {"kind": "DTSL", "schema": ["TSL", ["TS", "int"], 0], "script": script, "start": 0, "end": horizon}


def check_dyn_list(case, ctx) -> Result:
    res = Result()
    prog = {"start": 0, "end": case["end"], "stmts": [
        {"id": "w", "op": "src", "schema": "TSL[TS[int],0]", "script": case["script"]},
        {"id": "rec", "op": "node", "ins": ["w"], "deep": True, "valid": []}]}
    resp = ctx.run(prog)
    if resp.get("crash"):
        res.violations.append(Viol("engine_crash", f"worker died: {resp.get('signal')} {resp.get('stderr', '')[-300:]}"))
        return res
    if not resp.get("built") or resp.get("error"):
        raise HarnessError(f"C05 dynamic-list program failed: {resp.get('error')}")
    seen = {d["t"]: d["ins"][0] for d in Trace(resp["trace"]).evals_of("rec", "r")}
    cur = {}
    many = False
    for t, ops in case["script"]:
        written = {op["i"]: op["op"]["v"] for op in ops}
        cur.update(written)
        many = many or len(written) >= 3
        g = seen.get(t)
        feats = {"kind": "DTSL"}
        if g is None or not g.get("m"):
            res.violations.append(Viol("value_not_prev_plus_delta", f"dynamic list at t={t}: {len(written)} elements were written but the consumer saw no tick", feats))
            break
        val = {i: c.get("val") for i, c in enumerate(g.get("ch") or []) if c.get("v")}
        if val != cur:
            res.violations.append(Viol("value_not_sequential", f"dynamic list at t={t}: valid elements read {val}, the writes so far give {cur}", feats))
            break
        for what, d in (("delta_value", g.get("dv")), ("capture_delta", g.get("cd"))):
            got = {i: v for i, v in (d or [])} if isinstance(d, list) else None
            if got != written:
                res.violations.append(Viol("value_not_prev_plus_delta", f"dynamic list at t={t}: {what} reads {d} but this cycle wrote exactly {sorted(written.items())} (value now {val})", dict(feats, accessor=what)))
                break
        if res.violations:
            break
        it = g.get("it") or {}
        if "mi" in it and sorted(it["mi"]) != sorted(written):
            res.violations.append(Viol("value_not_prev_plus_delta", f"dynamic list at t={t}: modified_items() lists {it['mi']} but this cycle wrote {sorted(written)}", dict(feats, accessor="modified_items")))
            break
    res.nontrivial = many
    res.labels.append("kind_dynamic_list")
    if many:
        res.labels.append("three_plus_elements_in_one_cycle")
    return res


@st.composite
def any_case(draw, tier):
    # one case in ten is a dynamic list
    return draw(dyn_list_case(tier)) if draw(st.sampled_from(list(range(10)))) == 0 else draw(case(tier))


def strategy(tier):
    return any_case(tier)


# --------------------------------------------------------------------------------------------------- helpers
def tree_value(d, schema):
    """validity-aware value rebuilt from a deep endpoint dump."""
    if d is None:
        return None
    k = schema[0]
    if k == "TSW":
        return d.get("val") if d.get("lmt", -1) != -1 else None
    if k in ("TSL", "TSB"):
        xs = [tree_value(c, cs) for c, cs in zip(d["ch"], ([schema[1]] * schema[2]) if k == "TSL" else [cs for _, cs in schema[1]])]
        if all(x is None for x in xs):
            return None
        return xs if k == "TSL" else {n: x for (n, _), x in zip(schema[1], xs)}
    if not d.get("v"):
        return None
    if k == "TSS":
        return sorted(d.get("val"))
    if k in ("TS", "TSW", "SIGNAL"):
        return d.get("val")
    if k == "TSD":
        return sorted([key, tree_value(cd, schema[2])] for key, cd in d["acc"]["ch"])
    if k == "TSL":
        return [tree_value(c, schema[1]) for c in d["ch"]]
    if k == "TSB":
        return {n: tree_value(c, cs) for (n, cs), c in zip(schema[1], d["ch"])}
    raise ValueError(k)


def is_empty_delta(delta, schema):
    if delta is None:
        return True
    k = schema[0]
    if k == "TSS":
        return not delta["added"] and not delta["removed"]
    if k == "TSD":
        return not delta["removed"] and not delta["modified"]
    if k == "TSL":
        return all(is_empty_delta(d, schema[1]) for _, d in delta)
    if k == "TSB":
        return all(is_empty_delta(delta.get(n), cs) for n, cs in schema[1])
    return False


def apply_delta(value, delta, schema, errs, path="", skip_empty=False):
    """value (tree form) with `delta` applied; structural problems are appended to errs."""
    k = schema[0]
    if delta is None:
        return value
    if k in ("TS", "SIGNAL"):
        return delta
    if k == "TSW":
        out = list(value or []) + [delta]
        return out[-schema[2]:]
    if k == "TSS":
        cur = set(value or [])
        add, rem = set(delta["added"]), set(delta["removed"])
        if add & rem:
            errs.append(("added_removed_overlap", f"{path}: {sorted(add & rem)} in both added and removed"))
        if not rem <= cur:
            errs.append(("removed_not_present_before", f"{path}: removed {sorted(rem - cur)} were not in the previous value {sorted(cur)}"))
        if add & cur:
            errs.append(("added_already_present", f"{path}: added {sorted(add & cur)} were already in the previous value {sorted(cur)}"))
        return sorted((cur - rem) | add)
    if k == "TSD":
        cur = {key: v for key, v in (value or [])}
        rem = set(delta["removed"])
        mod = {key: d for key, d in delta["modified"]}
        if rem & set(mod):
            errs.append(("added_removed_overlap", f"{path}: keys {sorted(rem & set(mod))} both removed and modified"))
        if not rem <= set(cur):
            errs.append(("removed_not_present_before", f"{path}: removed keys {sorted(rem - set(cur))} were not in the previous value (keys {sorted(cur)})"))
        for key in rem:
            cur.pop(key, None)
        for key, d in mod.items():
            cur[key] = apply_delta(cur.get(key), d, schema[2], errs, f"{path}[{key}]", skip_empty)
        return sorted([key, v] for key, v in cur.items())
    if k == "TSL":
        cur = list(value) if value is not None else [None] * schema[2]
        for i, d in delta:
            if skip_empty and schema[1][0] in ("TSS", "TSD", "TSL", "TSB") and is_empty_delta(d, schema[1]) and cur[i] is None:
                continue
            cur[i] = apply_delta(cur[i], d, schema[1], errs, f"{path}[{i}]", skip_empty)
        return cur
    if k == "TSB":
        cur = dict(value) if value is not None else {n: None for n, _ in schema[1]}
        for n, cs in schema[1]:
            d = delta.get(n)
            if d is not None and not (skip_empty and cs[0] in ("TSS", "TSD", "TSL", "TSB") and is_empty_delta(d, cs) and cur.get(n) is None):
                cur[n] = apply_delta(cur.get(n), d, cs, errs, f"{path}.{n}", skip_empty)
        return cur
    raise ValueError(k)


def norm_delta(d, schema):
    """canonical form of a delta in which 'nothing here' (None or an empty structural delta) is None."""
    if d is None:
        return None
    k = schema[0]
    if k == "TSS":
        return None if not d["added"] and not d["removed"] else {"added": sorted(d["added"]), "removed": sorted(d["removed"])}
    if k == "TSD":
        mod = sorted([key, norm_delta(x, schema[2])] for key, x in d["modified"])
        return None if not d["removed"] and not mod else {"removed": sorted(d["removed"]), "modified": mod}
    if k == "TSL":
        xs = sorted([i, norm_delta(x, schema[1])] for i, x in d)
        xs = [x for x in xs if x[1] is not None]
        return xs or None
    if k == "TSB":
        xs = {n: norm_delta(d.get(n), cs) for n, cs in schema[1]}
        return xs if any(v is not None for v in xs.values()) else None
    return d


def same_delta(a, b, schema):
    """capture_delta vs delta_value; a captured delta whose shape does not fit the schema (a modified tree may produce one)
    is a disagreement, not a harness error."""
    try:
        return norm_delta(a, schema) == norm_delta(b, schema)
    except (TypeError, ValueError, KeyError, AttributeError, IndexError):
        return False


def first_erase_rewrite(script):
    """time of the first cycle in which some dictionary key is erased and then written again (known finding F6)."""
    for t, ops in script:
        erased = set()
        stack = [(o, ()) for o in reversed(ops)]
        order = []
        # depth-first in script order
        def walk(o, path):
            if o["k"] == "i":
                walk(o["op"], path + (o["i"],))
            elif o["k"] == "D":
                for x in o["ops"]:
                    if x[0] in ("erase",):
                        order.append(("e", path, x[1]))
                    elif x[0] == "clear":
                        order.append(("c", path, None))
                    elif x[0] in ("set", "at"):
                        order.append(("W" if x[0] == "at" else "w", path, x[1]))
                        if x[0] == "at":
                            walk(x[2], path + ("k", x[1]))
        for o in ops:
            walk(o, ())
        cleared_after = {}   # path -> set of keys written before the clear in this cycle
        written = set()
        erased_after_write = set()
        erased = set()
        for kind, path, key in order:
            if kind in ("w", "W"):
                if (path, key) in erased_after_write:
                    return t                      # write ; erase ; write of one key in one cycle
                if kind == "W" and ((path, key) in erased or path in cleared_after):
                    return t                      # erase ; re-create of a nested (non-leaf) child in one cycle
                written.add((path, key))
            elif kind == "e":
                erased.add((path, key))
                if (path, key) in written:
                    erased_after_write.add((path, key))
            elif kind == "c":
                cleared_after[path] = True
                for (p2, k2) in list(written):
                    if p2 == path:
                        erased_after_write.add((p2, k2))
    return None


def norm_value(v, schema):
    """None for 'nothing valid below' so that [None, None] == None etc."""
    if v is None:
        return None
    k = schema[0]
    if k == "TSL":
        xs = [norm_value(c, schema[1]) for c in v]
        return xs if any(x is not None for x in xs) else None
    if k == "TSB":
        xs = {n: norm_value(v.get(n), cs) for n, cs in schema[1]}
        return xs if any(x is not None for x in xs.values()) else None
    if k == "TSD":
        return sorted([key, norm_value(c, schema[2])] for key, c in v)
    return v


def classify(schema, script):
    kinds = set()
    sizes = {}

    def walk_ops(ops, path, prev_live, removed_earlier):
        pass
    # cheap structural classification straight from the script
    removed_before = set()
    live = {}
    for t, ops in script:
        seen_add, seen_rem = set(), set()
        stack = [(o, ()) for o in ops]
        while stack:
            o, path = stack.pop()
            if o["k"] == "i":
                stack.append((o["op"], path + (o["i"],)))
            elif o["k"] == "S":
                lv = live.setdefault(path, set())
                for x in o["ops"]:
                    if x[0] == "add":
                        if (path, x[1]) in seen_rem:
                            kinds.add("cancel_pair")
                        if (path, x[1]) in removed_before:
                            kinds.add("reinsert")
                        seen_add.add((path, x[1]))
                        lv.add(x[1])
                    elif x[0] == "rem":
                        if (path, x[1]) in seen_add:
                            kinds.add("cancel_pair")
                        seen_rem.add((path, x[1]))
                        lv.discard(x[1])
                    elif x[0] == "clear":
                        for e in lv:
                            seen_rem.add((path, e))
                        lv.clear()
                    if len(lv) in (9, 17, 33):
                        kinds.add("capacity_cross")
            elif o["k"] == "D":
                lv = live.setdefault(path, set())
                for x in o["ops"]:
                    if x[0] in ("set", "at"):
                        if (path, x[1]) in seen_rem:
                            kinds.add("cancel_pair")
                        if (path, x[1]) in removed_before:
                            kinds.add("reinsert")
                        seen_add.add((path, x[1]))
                        lv.add(x[1])
                        if x[0] == "at":
                            stack.append((x[2], path + ("k", x[1])))
                    elif x[0] == "erase":
                        if (path, x[1]) in seen_add:
                            kinds.add("cancel_pair")
                        seen_rem.add((path, x[1]))
                        lv.discard(x[1])
                    elif x[0] == "clear":
                        for e in lv:
                            seen_rem.add((path, e))
                        lv.clear()
                    if len(lv) in (9, 17, 33):
                        kinds.add("capacity_cross")
        removed_before |= seen_rem
    return kinds


# --------------------------------------------------------------------------------------------------- check
def check(case, ctx) -> Result:
    if case.get("kind") == "DTSL":
        return check_dyn_list(case, ctx)
    res = Result()
    schema = tuple_schema(case["schema"])
    ss = tm.schema_str(schema)
    prog = {"start": case["start"], "end": case["end"], "stmts": [
        {"id": "w", "op": "src", "schema": ss, "script": case["script"]},
        {"id": "rec", "op": "node", "ins": ["w"], "deep": True, "valid": []},
    ]}
    resp = ctx.run(prog)
    if resp.get("crash"):
        res.violations.append(Viol("engine_crash", f"worker died: {resp.get('signal')} {resp.get('stderr', '')[-500:]}"))
        return res
    if not resp.get("built"):
        raise Rejected(f"C05 generator produced a program the tree rejects: {resp.get('error')}")
    if resp.get("error"):
        res.violations.append(Viol("run_failed", f"run() threw on a valid history: {resp['error']}", {"what": str(resp["error"].get("what"))[:60]}))
        return res
    tr = Trace(resp["trace"])
    model = {t: (m.val(), m.is_valid(), m.modified(), getattr(m, "count", None)) for t, m in snapshot_replay(schema, case["script"])}
    # tick window: the element pushed out by this cycle's push (None after a clear / when nothing was evicted)
    evicted = {t: (m.evicted if getattr(m, "evicted_at", None) == t else None) for t, m in snapshot_replay(schema, case["script"])} if schema[0] == "TSW" and not isinstance(schema[2], tuple) else {}
    if schema[0] == "TSW" and isinstance(schema[2], tuple):
        # duration window: a push that prunes nothing leaves no removed value to read (which of several pruned entries a pruning
        # push reports is not stated anywhere: not compared)
        evicted = {t: None for t, m in snapshot_replay(schema, case["script"]) if getattr(m, "evicted_at", None) == t and getattr(m, "pruned_now", 0) == 0}
    kinds = classify(schema, case["script"])
    f6_t = first_erase_rewrite(case["script"])
    if f6_t is not None:
        res.labels.append("erase_rewrite_same_cycle")
    for rec, what in (("rec", "direct"),):
        prev = None
        seen_t = []
        for d in tr.evals_of(rec, "r"):
            inp = d["ins"][0]
            if not inp["m"]:
                continue
            t = d["t"]
            if f6_t is not None and t > f6_t:
                break   # state after a known-finding cycle is not comparable any more: excluded, counted by the label above
            seen_t.append(t)
            cur = norm_value(tree_value(inp, schema), schema)
            exp = model.get(t)
            feats = {"same_cycle_erase_rewrite": f6_t is not None and t == f6_t}
            if exp is None:
                res.violations.append(Viol("tick_without_write", f"{what}: recorder saw a tick at t={t} but the script wrote nothing then", feats))
                break
            if schema[0] == "TSW":
                mval, mvalid, _, cnt = exp
                if inp["val"] != mval:
                    res.violations.append(Viol("window_contents", f"{what}: window at t={t} holds {inp['val']}, last {schema[2]} pushes are {mval}", feats))
                    break
                rm = (inp.get("acc") or {}).get("rm", "absent") if isinstance(inp.get("acc"), dict) else "absent"
                if t in evicted and rm != "absent" and rm != evicted[t]:
                    res.violations.append(Viol("window_removed_value_wrong", f"{what}: tick window {ss} at t={t}: removed_value reads {rm}, this tick pushed out {evicted[t]} (window now {mval})", {"kind": "TSW"}))
                    break
                if inp["v"] != (cnt >= schema[3]):
                    res.violations.append(Viol("window_validity", f"{what}: tick window {ss} at t={t} after {cnt} pushes reports valid={inp['v']} (min count {schema[3]}); all_valid={inp['av']}", {"kind": "TSW", "valid_reported": inp["v"]}))
                    break
                continue
            if cur != norm_value(exp[0], schema):
                res.violations.append(Viol("value_differs_from_history", f"{what}: value at t={t} is {cur}, sequential application of the script gives {norm_value(exp[0], schema)}", feats))
                break
            errs = []
            delta = inp.get("dv")
            calc = norm_value(apply_delta(prev, delta, schema, errs), schema)
            if errs:
                c, msg = errs[0]
                res.violations.append(Viol(c, f"{what}: t={t} {msg}; delta={delta}", feats))
                break
            if calc != cur:
                res.violations.append(Viol("value_not_prev_plus_delta", f"{what}: at t={t} previous value {prev} + delta {delta} = {calc}, but the value is {cur}", feats))
                break
            cd = inp.get("cd")
            if cd is not None and not same_delta(cd, delta, schema):
                res.violations.append(Viol("captured_delta_differs", f"{what}: at t={t} capture_delta gives {cd} but delta_value is {delta}", feats))
                break
            acc = inp.get("acc")
            if acc and schema[0] == "TSS":
                if sorted(acc["added"]) != sorted(delta["added"]) or sorted(acc["removed"]) != sorted(delta["removed"]):
                    res.violations.append(Viol("accessors_disagree_with_delta", f"{what}: t={t} added()/removed() = {acc['added']}/{acc['removed']} but delta_value = {delta}", feats))
                    break
            if acc and schema[0] == "TSD":
                prev_keys = {k for k, _ in (prev or [])}
                cur_keys = {k for k, _ in (cur or [])}
                if sorted(acc["added"]) != sorted(cur_keys - prev_keys):
                    res.violations.append(Viol("added_keys_wrong", f"{what}: t={t} added_keys() = {acc['added']} but the keys new in this tick are {sorted(cur_keys - prev_keys)} (previous keys {sorted(prev_keys)}, now {sorted(cur_keys)})", feats))
                    break
                if sorted(acc["removed"]) != sorted(delta["removed"]) or sorted(acc["modified"]) != sorted(k for k, _ in delta["modified"]):
                    res.violations.append(Viol("accessors_disagree_with_delta", f"{what}: t={t} removed_keys()/modified_keys() = {acc['removed']}/{acc['modified']} but delta_value = {delta}", feats))
                    break
            prev = cur
        else:
            missing = [t for t in model if t not in seen_t and model[t][2] and (f6_t is None or t <= f6_t)]
            if missing and rec == "rec":
                res.violations.append(Viol("write_without_tick", f"{what}: the script wrote at {missing[:6]} but the recorder saw no tick", {"same_cycle_erase_rewrite": False}))
    res.labels += sorted(kinds)
    res.labels.append("kind_" + schema[0])
    if tm.schema_depth(schema) >= 2:
        res.labels.append("nested")
    res.nontrivial = bool(kinds)
    res.summary = {"schema": ss, "cycles": len(case["script"]), "kinds": sorted(kinds)}
    return res


def tuple_schema(s):
    """JSON round trip turns tuples into lists: normalise back."""
    if isinstance(s, (list, tuple)):
        k = s[0]
        if k == "TSB":
            return ("TSB", [(n, tuple_schema(c)) for n, c in s[1]])
        if k == "TSD":
            return ("TSD", s[1], tuple_schema(s[2]))
        if k == "TSL":
            return ("TSL", tuple_schema(s[1]), s[2])
        return tuple(s)
    return s


def snapshot_replay(schema, script):
    m = tm.M(schema)
    for t, ops in script:
        m.begin_cycle()
        for op in ops:
            m.apply(op, t)
        yield t, m


# --------------------------------------------------------------------------------------------------- stateful
def extra_pass(ctx, tier, hseed, one, deadline):
    from hypothesis import HealthCheck, Phase, settings

    def machine(kind):
        schema = ("TSS", "int") if kind == "TSS" else ("TSD", "int", ("TS", "int"))

        class CollMachine(RuleBasedStateMachine):
            def __init__(self):
                super().__init__()
                self.script = []
                self.t = 0
                self.cur = []
                self.live = set()
                self.gone = set()

            def _op(self, *o):
                self.cur.append(list(o))

            @rule(e=st.integers(0, 40))
            def add(self, e):
                if kind == "TSS":
                    if e in self.live:
                        return
                    self._op("add", e)
                else:
                    self._op("set", e, (e * 7 + self.t) % 50)
                self.live.add(e)

            @precondition(lambda self: len(self.live) > 0)
            @rule(data=st.data())
            def remove_live(self, data):
                e = data.draw(st.sampled_from(sorted(self.live)))
                self._op("rem" if kind == "TSS" else "erase", e)
                self.live.discard(e)
                self.gone.add(e)

            @precondition(lambda self: len(self.gone - self.live) > 0)
            @rule(data=st.data())
            def reinsert(self, data):
                e = data.draw(st.sampled_from(sorted(self.gone - self.live)))
                if kind == "TSS":
                    self._op("add", e)
                else:
                    self._op("set", e, 99)
                self.live.add(e)

            @rule(n=st.integers(5, 12))
            def burst(self, n):
                base = max(self.live | self.gone | {0}) + 1
                for e in range(base, base + n):
                    if kind == "TSS":
                        self._op("add", e)
                    else:
                        self._op("set", e, e % 50)
                    self.live.add(e)

            @precondition(lambda self: len(self.cur) > 0)
            @rule(dt=st.integers(1, 3))
            def end_cycle(self, dt):
                self.script.append([self.t, [{"k": "S" if kind == "TSS" else "D", "ops": self.cur}]])
                self.cur = []
                self.t += dt

            def teardown(self):
                if self.cur:
                    self.script.append([self.t, [{"k": "S" if kind == "TSS" else "D", "ops": self.cur}]])
                if self.script:
                    one({"schema": schema, "script": self.script, "start": 0, "end": self.script[-1][0] + 2})
        return CollMachine

    n = 60 if tier == "quick" else 1500
    for kind in ("TSS", "TSD"):
        run_state_machine_as_test(hypothesis.seed(hseed)(machine(kind)),
                                  settings=settings(max_examples=n, stateful_step_count=40, database=None, deadline=None,
                                                    phases=[Phase.generate], suppress_health_check=list(HealthCheck)))
