"""C07 — simulation runs are reproducible and isolated from each other."""
from __future__ import annotations

import copy

from hypothesis import strategies as st

from hgv import gen
from hgv import tsmodel as tm
from hgv.runner import Result, Viol, canon
from hgv.worker import HarnessError, Rejected, Worker

ID = "C07"
MAX_SHARDS = 8
RULE = ("A batch of 2-4 generated programs (dataflow graphs with stateful nodes and nested children, a map_ over a scripted dictionary "
        "creating dynamic children, a writer recorded with the record operator) and a plan: every program is first run ALONE in a freshly "
        "started worker process (reference), then, inside the long-lived shard worker that has built and run thousands of unrelated graphs "
        "before, in 2-4 waves where each builder is reused up to 4 times and up to 8 executors run simultaneously on their own threads "
        "(wiring, make_executor and release stay on the main thread - the supported usage). Every run's complete event trace (lifecycle "
        "events, evaluation logs with all inputs/outputs, cycle times) and recorded buffers must be byte-identical to the reference. "
        "Non-trivial = >= 2 programs, a builder reused >= 2 times and >= 2 executors whose run() intervals overlapped in wall time "
        "(measured). Distinct = canonical JSON of the case.")
ASSUMPTIONS = ["thread interleavings are sampled by the OS, not enumerated; a data race that changes no output is invisible to this oracle"]


def examples(tier):
    return 400 if tier == "quick" else 6000


def budget_s(tier):
    return 80 if tier == "quick" else 600


@st.composite
def one_program(draw, big):
    kind = draw(st.sampled_from(["flow", "flow", "map", "record", "errcap"]))
    horizon = draw(st.integers(4, 30 if big else 14))
    if kind == "errcap":
        # a library node (process-wide interned node type) that throws, captured with per-graph diagnostic options: the
        # error ticks must carry the options THIS graph asked for, whatever other graphs of the process asked for
        xs = draw(gen.int_script(0, horizon - 1, max_size=6, min_size=2))
        zs = [[t, [{"k": "set", "v": draw(st.sampled_from([0, 0, 1, 2]))}]] for t, _ in xs]
        return {"start": 0, "end": horizon, "stmts": [
            {"id": "x", "op": "src", "schema": "TS[int]", "script": xs},
            {"id": "z", "op": "src", "schema": "TS[int]", "script": zs},
            {"id": "pre", "op": "node", "ins": ["x"], "out": "TS[int]", "fn": "sum", "log_inputs": False},
            {"id": "q", "op": "op", "name": draw(st.sampled_from(["floordiv_", "mod_"])), "args": [{"ts": "pre"}, {"ts": "z"}], "has_out": True},
            {"id": "err", "op": "errcap", "of": "q", "depth": draw(st.integers(1, 3)), "values": draw(st.booleans())},
            {"id": "rerr", "op": "node", "ins": ["err"], "deep": True, "valid": []},
            {"id": "rq", "op": "node", "ins": ["q"], "valid": []}]}
    if kind == "flow":
        prog = draw(gen.dataflow(0, horizon, max_nodes=8, max_depth=2, big=big))
        prog["stmts"] = draw(gen.permuted(prog["stmts"]))
        return prog
    script = draw(tm.history(("TSD", "int", ("TS", "int")), 0, horizon, {"cancel": True, "multi": True, "no_rewrite": True, "keys": 6}, max_cycles=8))
    stmts = [{"id": "d", "op": "src", "schema": "TSD[int,TS[int]]", "script": script}]
    subs = {}
    if kind == "map":
        subs["F"] = {"params": ["TS[int]"], "names": ["x"], "out": "TS[int]", "ret": "f1", "stmts": [
            {"id": "f0", "op": "node", "ins": [{"arg": 0}], "out": "TS[int]", "fn": "acc"},
            {"id": "f1", "op": "node", "ins": ["f0"], "out": "TS[int]", "fn": "count", "sched": {"tick": [["s", "rel", 2, None]]}}]}
        stmts += [{"id": "m", "op": "op", "name": "map_", "args": [{"fn": "F"}, {"ts": "d"}], "has_out": True},
                  {"id": "rec", "op": "node", "ins": ["m"], "deep": True, "valid": []}]
        return {"start": 0, "end": horizon, "stmts": stmts, "subs": subs}
    # the testing recorder in its dense (cycle-indexed) or sparse ((time, delta) list) layout; the sparse buffer is read raw
    sparse = draw(st.booleans())
    stmts = [{"op": "rr_config"}] + stmts + [{"id": "R", "op": "op", "name": "record", "has_out": False,
                                              "args": [{"ts": "d"}, {"sc": "buf", "t": "str"}] + ([{"sc": True, "t": "bool", "name": "sparse"}] if sparse else [])},
                                             {"id": "rec", "op": "node", "ins": ["d"], "deep": True, "valid": []}]
    return {"start": 0, "end": horizon, "stmts": stmts, **({"gs_keys": ["buf"], "sparse_record": True} if sparse else {"record_keys": ["buf"]})}


@st.composite
def case(draw, tier):
    big = tier == "thorough"
    progs = [draw(one_program(big)) for _ in range(draw(st.integers(2, 4)))]
    if draw(st.integers(0, 4)) == 0:
        # a tick-count window and a duration window with coinciding numbers in one process (process-wide schema caches
        # must keep them apart whichever is built first)
        p_, m_ = draw(st.sampled_from([2, 3, 4])), draw(st.sampled_from([0, 1, 2]))
        times = sorted(draw(st.sets(st.integers(0, 11), min_size=3, max_size=8)))
        pair = [{"start": 0, "end": 13, "stmts": [
            {"id": "w", "op": "src", "schema": sch, "script": [[t, [{"k": "push", "v": 10 + t}]] for t in times]},
            {"id": "rw", "op": "node", "ins": ["w"], "deep": True, "valid": []}]} for sch in (f"TSW[int,{p_},{m_}]", f"TSWD[int,{p_},{m_}]")]
        if draw(st.booleans()):
            pair.reverse()
        progs = pair + progs[:2]
    plan = []
    for w in range(draw(st.integers(2, 4))):
        n = draw(st.integers(1, 8 if big else 6))
        for _ in range(n):
            plan.append({"p": draw(st.integers(0, len(progs) - 1)), "wave": w})
    for p in progs:
        p["gs_keys"] = p.get("gs_keys", []) + ["hv.host.secret"]      # every run reports whether the foreign key is visible in its global state
    # foreign-context stage: while the main thread holds a GlobalContext over its own state, one worker thread at a time
    # wires + builds + runs a program, optionally inside a GlobalContext of its own
    foreign = [{"p": draw(st.integers(0, len(progs) - 1)), "own_ctx": draw(st.booleans())} for _ in range(draw(st.integers(0, 2)))]
    # shared-context stage: one GlobalContext spans several wire + run rounds of the RECORDING programs and the state is copied
    # back after each run (eval_node / lower idiom), so every wiring is seeded with the earlier rounds' buffers under the same key
    recs = [i for i, p in enumerate(progs) if any(s_.get("name") == "record" for s_ in p["stmts"])]
    shared = [draw(st.sampled_from(recs)) for _ in range(draw(st.integers(2, 4)))] if recs else []
    return {"progs": progs, "plan": plan, "foreign": foreign, "shared": shared}


def strategy(tier):
    return case(tier)


def norm_trace(tr):
    return canon(tr)


def check(case, ctx) -> Result:
    res = Result()
    # reference: each program alone in a fresh process
    ref = []
    fresh = Worker(variant="plain")
    try:
        for p in case["progs"]:
            r = fresh.request({"op": "run", "prog": p})
            if r.get("crash"):
                res.violations.append(Viol("engine_crash", f"fresh-process run died: {r.get('signal')} {r.get('stderr', '')[-300:]}"))
                return res
            if not r.get("built"):
                raise Rejected(f"C07 generator produced a program the tree rejects: {r.get('error')}")
            ref.append((norm_trace(r["trace"]), canon(r.get("recorded")), canon(r.get("error"))))
    finally:
        fresh.close()
    resp = ctx.request({"op": "batch", "progs": case["progs"], "plan": case["plan"], "foreign": case.get("foreign", []), "shared": case.get("shared", [])}, timeout=120)
    if resp.get("crash"):
        res.violations.append(Viol("engine_crash", f"batch run died: {resp.get('signal')} hang={resp.get('hang')} {resp.get('stderr', '')[-400:]}", {"hang": bool(resp.get("hang"))}))
        return res
    if any(resp["build_errors"]):
        res.violations.append(Viol("build_depends_on_history", f"a program that builds in a fresh process was rejected inside the long-lived worker: {resp['build_errors']}"))
        return res
    uses = {}
    overlaps = 0
    waves = {}
    for entry, run in zip(case["plan"], resp["runs"]):
        p = run["p"]
        uses[p] = uses.get(p, 0) + 1
        waves.setdefault(entry["wave"], []).append(run)
        got = (norm_trace(run["trace"]), canon(run.get("recorded")), canon(run.get("error")))
        if got != ref[p]:
            what = "trace" if got[0] != ref[p][0] else "recorded buffer" if got[1] != ref[p][1] else "error"
            n_alone = len(waves[entry["wave"]]) == 1 and sum(1 for e in case["plan"] if e["wave"] == entry["wave"]) == 1
            # first differing trace entry
            detail = ""
            if what == "trace":
                import json
                a, b = json.loads(ref[p][0]), run["trace"]
                k = next((i for i, (x, y) in enumerate(zip(a, b)) if x != y), min(len(a), len(b)))
                detail = f"; first difference at entry {k}: fresh {str(a[k:k + 1])[:200]} vs here {str(b[k:k + 1])[:200]} (lengths {len(a)}/{len(b)})"
            res.violations.append(Viol("run_not_reproducible", f"program {p}, use #{uses[p]} of its builder, wave {entry['wave']} ({'alone' if n_alone else 'concurrent'}): {what} differs from the run in a fresh process{detail}",
                                       {"what": what, "reuse": uses[p] > 1, "concurrent": not n_alone}))
            break
    for run in resp.get("foreign_runs", []):
        p = run["p"]
        how = "inside its own GlobalContext" if run["own_ctx"] else "without a context of its own"
        if run.get("build_error"):
            res.violations.append(Viol("build_depends_on_history", f"program {p} wired on a worker thread ({how}) while another thread held a GlobalContext was rejected: {run['build_error']}", {"foreign": True}))
            break
        got = (norm_trace(run["trace"]), canon(run.get("recorded")), canon(run.get("error")))
        if got != ref[p]:
            what = "trace" if got[0] != ref[p][0] else "recorded buffer" if got[1] != ref[p][1] else "error"
            detail = ""
            if what == "trace":
                import json
                a, b = json.loads(ref[p][0]), run["trace"]
                k = next((i for i, (x, y) in enumerate(zip(a, b)) if x != y), min(len(a), len(b)))
                detail = f"; first difference at entry {k}: fresh {str(a[k:k + 1])[:200]} vs here {str(b[k:k + 1])[:200]}"
            elif what == "error":
                detail = f": {str(run.get('error'))[:300]}"
            res.violations.append(Viol("run_not_reproducible", f"program {p} wired and run on a worker thread ({how}) while the main thread held a GlobalContext over its own state: {what} differs from the run in a fresh process{detail}",
                                       {"what": what, "foreign": True}))
            break
    for n_round, run in enumerate(resp.get("shared_runs", [])):
        p = run["p"]
        if run.get("build_error"):
            res.violations.append(Viol("build_depends_on_history", f"program {p} wired inside a GlobalContext that already holds the state of {n_round} earlier round(s) was rejected: {run['build_error']}", {"shared_context": True}))
            break
        got = (norm_trace(run["trace"]), canon(run.get("recorded")), canon(run.get("error")))
        if got != ref[p]:
            what = "trace" if got[0] != ref[p][0] else "recorded buffer" if got[1] != ref[p][1] else "error"
            detail = ""
            if what == "trace":
                import json
                a, b = json.loads(ref[p][0]), run["trace"]
                k = next((i for i, (x, y) in enumerate(zip(a, b)) if x != y), min(len(a), len(b)))
                detail = f"; first difference at entry {k}: fresh {str(a[k:k + 1])[:300]} vs here {str(b[k:k + 1])[:300]}"
            res.violations.append(Viol("run_not_reproducible", f"program {p}, round {n_round + 1} inside one GlobalContext whose state is copied back after every run (earlier rounds: {[r_['p'] for r_ in resp['shared_runs'][:n_round]]}): {what} differs from the run in a fresh process{detail}",
                                       {"what": what, "shared_context": True, "sparse": bool(case["progs"][p].get("sparse_record"))}))
            break
        if "recorded_ctx" in run and canon(run["recorded_ctx"]) != ref[p][1] and not res.violations:
            res.violations.append(Viol("run_not_reproducible", f"program {p}, round {n_round + 1} inside one GlobalContext: the recorded buffer as it reads from the context's state after the copy-back ({str(run['recorded_ctx'])[:300]}) differs from the buffer of the run in a fresh process ({str(ref[p][1])[:300]})",
                                       {"what": "recorded buffer after copy-back", "shared_context": True}))
            break
    if case.get("shared"):
        res.labels.append("shared_context_stage")
        if any(case["progs"][p].get("sparse_record") for p in case["shared"]):
            res.labels.append("shared_context_sparse_record")
    if case.get("foreign") and "host_size" in resp and (resp["host_size"] != 1 or not resp.get("host_secret")):
        res.violations.append(Viol("foreign_state_written", f"the state selected by the main thread's GlobalContext had 1 key before other threads wired and ran graphs, and {resp['host_size']} afterwards", {"foreign": True}))
    if case.get("foreign"):
        res.labels.append("foreign_context_stage")
    for w, runs in waves.items():
        for i in range(len(runs)):
            for j in range(i + 1, len(runs)):
                if runs[i]["t0"] < runs[j]["t1"] and runs[j]["t0"] < runs[i]["t1"]:
                    overlaps += 1
    reused = any(v >= 2 for v in uses.values())
    res.nontrivial = len(case["progs"]) >= 2 and reused and overlaps >= 1
    if overlaps:
        res.labels.append("measured_overlap")
    if reused:
        res.labels.append("builder_reused")
    if any(v >= 3 for v in uses.values()):
        res.labels.append("builder_reused_3x")
    res.labels.append(f"progs_{len(case['progs'])}")
    ctx.engine_runs += len(case["plan"]) + len(case["progs"]) + len(case.get("foreign", [])) + len(case.get("shared", [])) - 1   # executions actually performed by the engine
    res.summary = {"plan": [(e["p"], e["wave"]) for e in case["plan"]][:16], "overlapping_pairs": overlaps}
    return res
