"""C19 — operator resolution picks the unique most specific match, consistently."""
from __future__ import annotations

import itertools

from hypothesis import strategies as st

from hgv.runner import Result, Viol
from hgv.worker import HarnessError

ID = "C19"
RULE = ("Overload families of 1-5 candidates with 1-3 parameters are built at run time from a pattern grammar (concrete types, scalar "
        "variables, whole-time-series variables, repeated variables, nested TSD/TSL/TSS/TSB patterns, TSL size variables, REF and SIGNAL "
        "parameters, scalar parameters - concrete or a scalar variable shared with the time-series patterns) with the library's own specificity rank, registered under fresh operator names in 2-4 random orders, and resolved "
        "against argument tuples drawn from the same grammar (biased to instances of the candidates). An independent Python unifier "
        "decides which candidates match and with which bindings. Checked: every order gives the same winner or the same error class; "
        "the winner really unifies with one binding per variable and the reported output type is the output pattern under those "
        "bindings; 'no match' iff nothing unifies, 'ambiguous' only if >= 2 unify; a candidate that is a proper substitution instance of "
        "another matching candidate beats it. A finite sub-domain (all families of <= 3 one-parameter candidates over 15 patterns x 6 "
        "argument types x all registration orders) is enumerated exhaustively in every run. Non-trivial = >= 3 candidates of which >= 2 "
        "match the call and at least one pair is comparable by substitution. Distinct = canonical JSON of the case.")
ASSUMPTIONS = ["a parameter position is scalar for every candidate and every call of a family (no scalar-to-time-series promotion is generated); a plain int/bool value matching a concrete numeric scalar parameter by the documented coercion is accepted as a match but left out of the substitution-instance order",
               "SIGNAL accepts any time-series and REF is transparent on inputs (documented input rule); candidates with such parameters are left out of the specificity order",
               "incomparable candidates are ranked by the library's numeric rank and are only subject to order independence"]

SCALARS = ["int", "bool", "str"]


def examples(tier):
    return 4000 if tier == "quick" else 150000


def budget_s(tier):
    return 80 if tier == "quick" else 600


# ------------------------------------------------------------------------------------------------ schemas / patterns
def sstr(s):
    k = s[0]
    if k == "SC":
        return f"SC[{s[1]}]"     # a scalar argument of that type
    if k == "TS":
        return f"TS[{s[1]}]"
    if k == "TSS":
        return f"TSS[{s[1]}]"
    if k == "TSD":
        return f"TSD[{s[1]},{sstr(s[2])}]"
    if k == "TSL":
        return f"TSL[{sstr(s[1])},{s[2]}]"
    if k == "TSB":
        return "TSB[" + ",".join(f"{n}:{sstr(c)}" for n, c in s[1]) + "]"
    raise ValueError(k)


def tup(x):
    return tuple(tup(i) for i in x) if isinstance(x, (list, tuple)) else x


@st.composite
def schema(draw, depth=2):
    k = draw(st.sampled_from(["TS", "TS", "TSS", "TSD", "TSL", "TSB"] if depth > 0 else ["TS", "TS", "TSS"]))
    if k == "TS":
        return ("TS", draw(st.sampled_from(SCALARS)))
    if k == "TSS":
        return ("TSS", draw(st.sampled_from(SCALARS)))
    if k == "TSD":
        return ("TSD", draw(st.sampled_from(["int", "str"])), draw(schema(depth - 1)))
    if k == "TSL":
        # size 0 = a dynamic (unsized) list: a size VARIABLE binds to 0 for it, a LITERAL size 0 in a pattern means "any size"
        return ("TSL", draw(schema(depth - 1)), draw(st.sampled_from([0, 1, 2, 3, 3])))
    n = draw(st.integers(1, 2))
    return ("TSB", tuple((f"f{i}", draw(schema(depth - 1))) for i in range(n)))


def generalise(draw, s, vars_ts, vars_sc, vars_sz, depth=0):
    """a pattern that matches schema s: each sub-term is kept concrete or replaced by a (possibly shared) variable."""
    if s[0] == "SC":
        return ("scalar", ("v", draw(st.sampled_from(vars_sc))) if draw(st.booleans()) else ("c", s[1]))
    if depth > 0 and draw(st.integers(0, 14)) == 0:
        # REF[...] / SIGNAL below a collection pattern: on inputs REF is transparent and SIGNAL accepts any time-series
        return ("signal",) if draw(st.booleans()) else ("ref", generalise(draw, s, vars_ts, vars_sc, vars_sz, depth))
    r = draw(st.integers(0, 9))
    if r == 0 and depth > 0 or r == 1:
        return ("var", draw(st.sampled_from(vars_ts)))
    if r == 2:
        return ("c", sstr(s))
    k = s[0]

    def sp(t):
        if draw(st.booleans()):
            name = draw(st.sampled_from(vars_sc))
            if draw(st.integers(0, 3)) == 0:
                # a CONSTRAINED variable (~T:{int,str}): it accepts only the listed scalar types, also at a position where it
                # is already bound by an earlier, unconstrained occurrence of the same name
                cons = tuple(sorted(draw(st.sets(st.sampled_from(SCALARS), min_size=1, max_size=2))))
                return ("v", name, cons)
            return ("v", name)
        return ("c", t)
    if k == "SC":
        return ("scalar", sp(s[1]))
    if k == "TS":
        return ("ts", sp(s[1]))
    if k == "TSS":
        return ("tss", sp(s[1]))
    if k == "TSD":
        return ("tsd", sp(s[1]), generalise(draw, s[2], vars_ts, vars_sc, vars_sz, depth + 1))
    if k == "TSL":
        if draw(st.integers(0, 2)) == 0:
            return ("tslv", generalise(draw, s[1], vars_ts, vars_sc, vars_sz, depth + 1), draw(st.sampled_from(vars_sz)))
        return ("tsl", generalise(draw, s[1], vars_ts, vars_sc, vars_sz, depth + 1), s[2])
    return ("tsb", tuple((n, generalise(draw, c, vars_ts, vars_sc, vars_sz, depth + 1)) for n, c in s[1]))


def pat_json(p):
    k = p[0]
    if k == "c":
        return {"k": "c", "s": p[1]}
    if k == "scalar":
        return {"k": "scalar", "e": ({"c": p[1][1]} if p[1][0] == "c" else {"v": p[1][1]})}
    if k == "var":
        return {"k": "var", "n": p[1]}
    if k in ("ts", "tss"):
        return {"k": k, "e": ({"c": p[1][1]} if p[1][0] == "c" else {"v": p[1][1], **({"cons": list(p[1][2])} if len(p[1]) > 2 else {})})}
    if k == "tsd":
        return {"k": "tsd", "key": ({"c": p[1][1]} if p[1][0] == "c" else {"v": p[1][1], **({"cons": list(p[1][2])} if len(p[1]) > 2 else {})}), "v": pat_json(p[2])}
    if k == "tsl":
        return {"k": "tsl", "e": pat_json(p[1]), "n": p[2]}
    if k == "tslv":
        return {"k": "tsl", "e": pat_json(p[1]), "nv": p[2]}
    if k == "tsb":
        return {"k": "tsb", "f": [[n, pat_json(c)] for n, c in p[1]]}
    if k == "ref":
        return {"k": "ref", "e": pat_json(p[1])}
    if k == "signal":
        return {"k": "signal"}
    raise ValueError(k)


def pat_vars(p, out=None):
    out = set() if out is None else out
    k = p[0]
    if k == "var":
        out.add(("ts", p[1]))
    elif k in ("ts", "tss", "scalar"):
        if p[1][0] == "v":
            out.add(("sc", p[1][1]))
    elif k == "tsd":
        if p[1][0] == "v":
            out.add(("sc", p[1][1]))
        pat_vars(p[2], out)
    elif k == "tsl":
        pat_vars(p[1], out)
    elif k == "tslv":
        out.add(("sz", p[2]))
        pat_vars(p[1], out)
    elif k == "tsb":
        for _, c in p[1]:
            pat_vars(c, out)
    elif k == "ref":
        pat_vars(p[1], out)
    return out


def has_constrained(p):
    k = p[0]
    if k in ("ts", "tss", "tsd", "scalar") and p[1][0] == "v" and len(p[1]) > 2:
        return True
    if k == "tsd":
        return has_constrained(p[2])
    if k in ("tsl", "tslv", "ref"):
        return has_constrained(p[1])
    if k == "tsb":
        return any(has_constrained(c) for _, c in p[1])
    return False


def has_special(p):
    k = p[0]
    if k in ("ref", "signal"):
        return True
    if k == "tsd":
        return has_special(p[2])
    if k == "tsl" and p[2] == 0:
        return True      # the unsized-list wildcard takes no part in the substitution-instance order
    if k in ("tsl", "tslv", "ref"):
        return has_special(p[1])
    if k == "tsb":
        return any(has_special(c) for _, c in p[1])
    return False


def parse_schema(s):
    """inverse of sstr for concrete patterns ("c", str)"""
    s = s.strip()
    if s.startswith("TS["):
        return ("TS", s[3:-1])
    if s.startswith("TSS["):
        return ("TSS", s[4:-1])
    inner = s[4:-1]
    depth, parts, cur = 0, [], ""
    for ch in inner:
        if ch == "[":
            depth += 1
        if ch == "]":
            depth -= 1
        if ch == "," and depth == 0:
            parts.append(cur)
            cur = ""
        else:
            cur += ch
    parts.append(cur)
    if s.startswith("TSD["):
        return ("TSD", parts[0], parse_schema(",".join(parts[1:])))
    if s.startswith("TSL["):
        return ("TSL", parse_schema(",".join(parts[:-1])), int(parts[-1]))
    if s.startswith("TSB["):
        return ("TSB", tuple((p.split(":", 1)[0], parse_schema(p.split(":", 1)[1])) for p in parts))
    raise ValueError(s)


# ------------------------------------------------------------------------------------------------ reference unifier
def unify(p, s, b):
    """match pattern p against concrete schema s extending bindings b (dict); returns False on failure."""
    k = p[0]
    if k == "c":
        return parse_schema(p[1]) == s
    if k == "var":
        key = ("ts", p[1])
        if key in b:
            return b[key] == s
        b[key] = s
        return True
    if k == "signal":
        return True
    if k == "ref":
        return unify(p[1], s, b)

    def sc(sp_, t):
        if sp_[0] == "c":
            return sp_[1] == t
        if len(sp_) > 2 and t not in sp_[2]:
            return False            # outside the variable's constraints - whether or not the variable is bound already
        key = ("sc", sp_[1])
        if key in b:
            return b[key] == t
        b[key] = t
        return True
    if k == "scalar":
        if s[0] != "SC":
            return False
        if p[1][0] == "c" and p[1][1] != s[1] and {p[1][1], s[1]} <= {"int", "bool"}:
            # documented coercion of a plain value to a concrete numeric scalar parameter (costs one rank step): the
            # candidate matches, but it takes no part in the substitution-instance order below
            b[("coerced",)] = True
            return True
        return sc(p[1], s[1])
    if s[0] == "SC":
        return False
    if k == "ts":
        return s[0] == "TS" and sc(p[1], s[1])
    if k == "tss":
        return s[0] == "TSS" and sc(p[1], s[1])
    if k == "tsd":
        return s[0] == "TSD" and sc(p[1], s[1]) and unify(p[2], s[2], b)
    if k == "tsl":
        return s[0] == "TSL" and (p[2] == 0 or s[2] == p[2]) and unify(p[1], s[1], b)
    if k == "tslv":
        if s[0] != "TSL":
            return False
        key = ("sz", p[2])
        if key in b and b[key] != s[2]:
            return False
        b[key] = s[2]
        return unify(p[1], s[1], b)
    if k == "tsb":
        return s[0] == "TSB" and len(s[1]) == len(p[1]) and all(n1 == n2 for (n1, _), (n2, _) in zip(p[1], s[1])) and all(unify(pc, sc_, b) for (_, pc), (_, sc_) in zip(p[1], s[1]))
    raise ValueError(k)


def subst(p, b):
    k = p[0]
    if k == "c":
        return parse_schema(p[1])
    if k == "var":
        return b[("ts", p[1])]
    if k == "ts":
        return ("TS", p[1][1] if p[1][0] == "c" else b[("sc", p[1][1])])
    if k == "tss":
        return ("TSS", p[1][1] if p[1][0] == "c" else b[("sc", p[1][1])])
    if k == "tsd":
        return ("TSD", p[1][1] if p[1][0] == "c" else b[("sc", p[1][1])], subst(p[2], b))
    if k == "tsl":
        return ("TSL", subst(p[1], b), p[2])
    if k == "tslv":
        return ("TSL", subst(p[1], b), b[("sz", p[2])])
    if k == "tsb":
        return ("TSB", tuple((n, subst(c, b)) for n, c in p[1]))
    raise KeyError(k)


def instance_of(a, b, m):
    """is pattern a an instance of pattern b (one-way matching: b's variables map to sub-patterns of a)?"""
    kb = b[0]
    if kb == "var":
        key = ("ts", b[1])
        if key in m:
            return m[key] == a
        m[key] = a
        return True
    if kb == "c":
        try:
            return a[0] == "c" and parse_schema(a[1]) == parse_schema(b[1]) or (a[0] != "var" and not pat_vars(a) and subst(a, {}) == parse_schema(b[1]))
        except KeyError:
            return False
    if a[0] == "c":
        # compare b against the concrete schema (b's variables bind to concrete parts)
        mm = {}
        ok = unify(b, parse_schema(a[1]), mm)
        if ok:
            for k2, v in mm.items():
                if k2 in m and m[k2] != ("conc", v):
                    return False
                m[k2] = ("conc", v)
        return ok
    if a[0] != kb and not (kb == "tslv" and a[0] in ("tsl", "tslv")):
        return False

    def sc(sa, sb):
        if sb[0] == "c":
            return sa == sb
        key = ("sc", sb[1])
        if key in m:
            return m[key] == sa
        m[key] = sa
        return True
    if kb in ("ts", "tss", "scalar"):
        return sc(a[1], b[1])
    if kb == "tsd":
        return sc(a[1], b[1]) and instance_of(a[2], b[2], m)
    if kb == "tsl":
        return a[0] == "tsl" and a[2] == b[2] and instance_of(a[1], b[1], m)
    if kb == "tslv":
        key = ("sz", b[2])
        val = ("n", a[2]) if a[0] == "tsl" else ("v", a[2])
        if key in m and m[key] != val:
            return False
        m[key] = val
        return instance_of(a[1], b[1], m)
    if kb == "tsb":
        return len(a[1]) == len(b[1]) and all(n1 == n2 for (n1, _), (n2, _) in zip(a[1], b[1])) and all(instance_of(x, y, m) for (_, x), (_, y) in zip(a[1], b[1]))
    return False


def strip_size(p):
    k = p[0]
    if k in ("tsl", "tslv"):
        return ("tslX", strip_size(p[1]))
    if k == "tsd":
        return ("tsd", p[1], strip_size(p[2]))
    if k == "tsb":
        return ("tsb", tuple((n, strip_size(c)) for n, c in p[1]))
    if k == "ref":
        return ("ref", strip_size(p[1]))
    return p


def from_schema(sc):
    """structural spelling of a concrete schema"""
    k = sc[0]
    if k == "TS":
        return ("ts", ("c", sc[1]))
    if k == "TSS":
        return ("tss", ("c", sc[1]))
    if k == "TSD":
        return ("tsd", ("c", sc[1]), from_schema(sc[2]))
    if k == "TSL":
        return ("tsl", from_schema(sc[1]), sc[2])
    return ("tsb", tuple((n, from_schema(c)) for n, c in sc[1]))


def shape_key(params):
    """the parameter list with list sizes dropped, concrete parts spelled structurally and variables renamed in order of first
    occurrence: equal keys = the same overload up to TSL sizes and variable names"""
    names = {}

    def nm(kind, n):
        return names.setdefault((kind, n), f"{kind}{len([1 for k in names if k[0] == kind])}")

    def go(p):
        k = p[0]
        if k == "c":
            return go(from_schema(parse_schema(p[1])))
        if k == "var":
            return ("var", nm("ts", p[1]))
        if k in ("ts", "tss", "scalar"):
            return (k, p[1] if p[1][0] == "c" else ("v", nm("sc", p[1][1])))
        if k == "tsd":
            return ("tsd", p[1] if p[1][0] == "c" else ("v", nm("sc", p[1][1])), go(p[2]))
        if k in ("tsl", "tslv"):
            return ("tslX", go(p[1]))
        if k == "tsb":
            return ("tsb", tuple((n, go(c)) for n, c in p[1]))
        if k == "ref":
            return ("ref", go(p[1]))
        return p
    return tuple(go(tup(x)) for x in params)


def bundle_of_two_vars(A):
    """does some parameter of candidate A contain a (field-wise) bundle pattern with >= 2 whole-time-series variables below it?
    (known finding F15: the halved cost of nested variables adds up, so such a bundle ranks worse than one bare variable)"""
    def ts_vars(p):
        return [v for v in pat_vars(p) if v[0] == "ts"]

    def go(p):
        k = p[0]
        if k == "tsb":
            if sum(len(ts_vars(c)) for _, c in p[1]) >= 2:
                return True
            return any(go(c) for _, c in p[1])
        if k == "tsd":
            return go(p[2])
        if k in ("tsl", "tslv", "ref"):
            return go(p[1])
        return False
    return any(go(tup(x)) for x in A["params"])


def differ_only_in_size(A, B):
    return len(A["params"]) == len(B["params"]) and shape_key(A["params"]) == shape_key(B["params"])


def canon(p):
    """one spelling per type: a sub-pattern without variables is written as the concrete schema (the library ranks
    concrete(TS[int]) and ts(concrete(int)) differently although they denote the same type; two spellings of one type are
    not two overloads)"""
    k = p[0]
    if k in ("c", "var", "signal", "scalar"):
        return p
    if k == "ref":
        return ("ref", canon(p[1]))
    if not pat_vars(p) and not has_special(p):
        return ("c", sstr(subst(p, {})))
    if k == "tsd":
        return ("tsd", p[1], canon(p[2]))
    if k in ("tsl", "tslv"):
        return (k, canon(p[1]), p[2])
    if k == "tsb":
        return ("tsb", tuple((n, canon(c)) for n, c in p[1]))
    return p


def cand_instance_of(A, B):
    if len(A["params"]) != len(B["params"]):
        return False
    m = {}
    return all(instance_of(tup(x), tup(y), m) for x, y in zip(A["params"], B["params"]))


# ------------------------------------------------------------------------------------------------ generator
@st.composite
def case(draw, tier):
    npar = draw(st.integers(1, 3))
    def arg_like(i=None):
        # scalar parameters: a position is scalar for every candidate and every call (no scalar-to-time-series lifting is assumed)
        if i is None:
            return ("SC", draw(st.sampled_from(SCALARS))) if draw(st.integers(0, 5)) == 0 else draw(schema(2))
        return ("SC", draw(st.sampled_from(SCALARS))) if base_args[i][0] == "SC" else draw(schema(2))
    base_args = [arg_like() for _ in range(npar)]
    vars_ts, vars_sc, vars_sz = ["V", "W"], ["T", "U"], ["N", "M"]
    fam = []
    for ci in range(draw(st.integers(1, 5))):
        params = []
        # most candidates generalise the base call (so that several match); some are built from other schemas
        src = base_args if draw(st.integers(0, 3)) else [arg_like(i) for i in range(npar)]
        for s in src:
            r = draw(st.integers(0, 19)) if s[0] != "SC" else 19
            if r == 0:
                params.append(("signal",))
            elif r == 1:
                params.append(("ref", canon(generalise(draw, s, vars_ts, vars_sc, vars_sz))))
            else:
                params.append(canon(generalise(draw, s, vars_ts, vars_sc, vars_sz)))
        pv = set()
        for p in params:
            pat_vars(p, pv)
        # output pattern: one of the parameters' patterns (its variables are bound by construction) or a concrete type
        outs = [p for p in params if not has_special(p) and p[0] != "scalar"]
        out = draw(st.sampled_from(outs)) if outs and draw(st.booleans()) else ("c", "TS[int]")
        fam.append({"label": f"C{ci}", "params": params, "out": out})
    n_orders = draw(st.integers(2, 4))
    orders = [draw(st.permutations(list(range(len(fam))))) for _ in range(n_orders)]
    calls = [base_args]
    for _ in range(draw(st.integers(0, 3))):
        c = list(base_args)
        i = draw(st.integers(0, npar - 1))
        c[i] = arg_like(i)
        calls.append(c)
    return {"family": fam, "orders": orders, "calls": calls}


@st.composite
def variadic_case(draw, tier):
    """families with variadic overloads (`f(a, *rest)`): the last parameter pattern matches zero or more trailing arguments,
    each independently, under the bindings made by the fixed parameters (operator_dispatch.cpp try_match, tail scope)"""
    nfix = draw(st.integers(0, 2))
    fixed = [draw(schema(1)) for _ in range(nfix)]
    tail_t = draw(st.sampled_from(fixed)) if fixed and draw(st.booleans()) else draw(schema(1))
    vars_ts, vars_sc, vars_sz = ["V", "W"], ["T", "U"], ["N", "M"]
    fam = []
    for ci in range(draw(st.integers(1, 4))):
        variadic = draw(st.integers(0, 3)) != 0
        src = fixed if draw(st.integers(0, 3)) else [draw(schema(1)) for _ in range(nfix)]
        params = [canon(generalise(draw, x, vars_ts, vars_sc, vars_sz)) for x in src]
        if variadic:
            params.append(canon(generalise(draw, tail_t, vars_ts, vars_sc, vars_sz)))
        else:
            # a fixed-arity rival taking one or two more arguments
            params += [canon(generalise(draw, tail_t, vars_ts, vars_sc, vars_sz)) for _ in range(draw(st.integers(0, 2)))]
        nf = len(params) - 1 if variadic else len(params)
        outs = [q for q in params[:nf] if not has_special(q)]
        out = draw(st.sampled_from(outs)) if outs and draw(st.booleans()) else ("c", "TS[int]")
        fam.append({"label": f"C{ci}", "params": params, "out": out, "variadic": variadic})
    orders = [draw(st.permutations(list(range(len(fam))))) for _ in range(draw(st.integers(2, 3)))]
    calls = []
    for _ in range(draw(st.integers(1, 4))):
        ntail = draw(st.integers(0, 3))
        other = draw(schema(1))
        calls.append(list(fixed) + [tail_t if draw(st.integers(0, 2)) else other for _ in range(ntail)])
    return {"family": fam, "orders": orders, "calls": calls, "variadic": True}


def strategy(tier):
    return st.one_of(case(tier), case(tier), case(tier), case(tier), variadic_case(tier))


def check(case, ctx) -> Result:
    res = Result()
    fam = [{"label": c["label"], "params": [tup(p) for p in c["params"]], "out": tup(c["out"]), "variadic": bool(c.get("variadic"))} for c in case["family"]]
    calls = [[tup(s) for s in c] for c in case["calls"]]
    var_family = any(c["variadic"] for c in fam)
    req = {"op": "resolve", "family": [{"label": c["label"], "params": [pat_json(p) for p in c["params"]], "out": pat_json(c["out"]), "variadic": c["variadic"]} for c in fam],
           "orders": case["orders"], "calls": [[sstr(s) for s in c] for c in calls]}
    resp = ctx.request(req)
    if resp.get("crash"):
        res.violations.append(Viol("engine_crash", f"resolve died: {resp.get('signal')} {resp.get('stderr', '')[-400:]}"))
        return res
    ranks = resp["ranks"]
    loose = [any(has_special(p) for p in c["params"]) for c in fam]            # REF / SIGNAL / unsized wildcard: matching is looser than unify()
    special = [l_ or any(has_constrained(p) for p in c["params"]) for l_, c in zip(loose, fam)]   # ... plus constrained variables: no part in the instance order
    nontriv = False
    for ci, call in enumerate(calls):
        outs = [resp["results"][oi][ci] for oi in range(len(case["orders"]))]
        keyf = lambda o: (o.get("win"), o.get("err"))
        feats = {"special": any(special)}
        # (a) order independence
        if len({keyf(o) for o in outs}) != 1:
            res.violations.append(Viol("order_dependent", f"call {[sstr(s) for s in call]}: registration orders {case['orders']} give {[keyf(o) for o in outs]}", feats))
            continue
        o = outs[0]
        if o.get("err") in ("other", "exception"):
            res.violations.append(Viol("resolution_failed_oddly", f"call {[sstr(s) for s in call]}: {o.get('msg')}", feats))
            continue
        # reference: which candidates unify
        matches = {}
        for c in fam:
            b = {}
            if c["variadic"]:
                nf = len(c["params"]) - 1
                # fixed parameters bind; every trailing argument must match the tail pattern under those bindings, each
                # on its own (what a tail argument binds is not carried to the next one, nor to the result)
                if len(call) >= nf and all(unify(p, s, b) for p, s in zip(c["params"][:nf], call[:nf])) and \
                        all(unify(c["params"][nf], s, dict(b)) for s in call[nf:]):
                    matches[c["label"]] = b
            elif len(c["params"]) == len(call) and all(unify(p, s, b) for p, s in zip(c["params"], call)):
                matches[c["label"]] = b
        by_label = {c["label"]: c for c in fam}
        if any(special):
            res.labels.append("special_params")
        if o.get("win") is None:
            if o["err"] == "nomatch" and matches:
                res.violations.append(Viol("match_rejected", f"call {[sstr(s) for s in call]}: reported 'no matching overload' but {sorted(matches)} unify ({o.get('msg', '')[:300]})", feats))
            if var_family:
                continue       # how a variadic overload ranks against others is not part of the statement's vocabulary
            if o["err"] == "ambiguous" and len(matches) < 2 and not any(special):
                res.violations.append(Viol("ambiguity_invented", f"call {[sstr(s) for s in call]}: reported ambiguous but only {sorted(matches)} unify", feats))
            if o["err"] == "ambiguous" and len(matches) == 2 and not any(special) and not any(("coerced",) in mb for mb in matches.values()):
                a, b2 = [by_label[m] for m in sorted(matches)]
                if (cand_instance_of(a, b2) and not cand_instance_of(b2, a)) or (cand_instance_of(b2, a) and not cand_instance_of(a, b2)):
                    res.violations.append(Viol("ambiguous_between_comparable", f"call {[sstr(s) for s in call]}: ambiguous between {a['label']} {a['params']} and {b2['label']} {b2['params']} although one is a proper instance of the other", dict(feats, differ_only_in_tsl_size=differ_only_in_size(a, b2),
                                                                                                                         instance_has_bundle_of_vars=bundle_of_two_vars(a if cand_instance_of(a, b2) else b2))))
            continue
        win = by_label[o["win"]]
        if o["win"] not in matches and not loose[fam.index(win)]:
            res.violations.append(Viol("winner_does_not_match", f"call {[sstr(s) for s in call]}: winner {win['label']} {win['params']} does not unify with the arguments", feats))
            continue
        if o["win"] in matches and not has_special(win["out"]):
            b = matches[o["win"]]
            try:
                exp_out = sstr(subst(win["out"], b))
            except KeyError:
                exp_out = None
            got_out = o.get("out")
            if exp_out is not None and got_out != exp_out:
                res.violations.append(Viol("output_type_wrong", f"call {[sstr(s) for s in call]}: winner {win['label']} output pattern {win['out']} under bindings {b} is {exp_out}, reported {got_out}", feats))
            # one binding per variable, as reported
            for key_, v in b.items():
                if key_ == ("coerced",):
                    continue
                kind, name = key_
                rep = {"ts": o.get("ts_vars", {}), "sc": o.get("scalar_vars", {}), "sz": o.get("size_vars", {})}[kind].get(name)
                expv = sstr(v) if kind == "ts" else v
                if rep is not None and rep != expv:
                    res.violations.append(Viol("binding_wrong", f"call {[sstr(s) for s in call]}: variable {name} bound to {rep}, arguments require {expv}", feats))
        # (c) most specific among comparable matching candidates
        comparable = False
        if var_family:
            res.labels.append("variadic_family")
            if any(c["variadic"] and len(call) > len(c["params"]) - 1 and c["label"] in matches and pat_vars(c["params"][-1], set()) & set().union(*[pat_vars(q, set()) for q in c["params"][:-1]] or [set()]) for c in fam):
                res.labels.append("variadic_tail_shares_variable_with_fixed")
                nontriv = True
        for m in ([] if var_family else matches):
            if m == o["win"] or special[fam.index(by_label[m])] or special[fam.index(win)]:
                continue
            if ("coerced",) in matches[m] or ("coerced",) in matches.get(o["win"], {}):
                continue
            A = by_label[m]
            if cand_instance_of(A, win) and not cand_instance_of(win, A):
                res.violations.append(Viol("less_specific_won", f"call {[sstr(s) for s in call]}: {win['label']} {win['params']} (rank {ranks[fam.index(win)]}) won although {A['label']} {A['params']} (rank {ranks[fam.index(A)]}) also matches and is a proper instance of it", dict(feats, differ_only_in_tsl_size=differ_only_in_size(A, win), instance_has_bundle_of_vars=bundle_of_two_vars(A))))
            if cand_instance_of(A, win) != cand_instance_of(win, A):
                comparable = True
        if len(fam) >= 3 and len(matches) >= 2 and comparable:
            nontriv = True
    res.nontrivial = nontriv
    res.labels.append(f"family_{min(len(fam), 5)}")
    res.summary = {"family": [(c["label"], c["params"]) for c in fam][:5], "calls": [[sstr(s) for s in c] for c in calls][:3],
                   "results": [(o.get("win"), o.get("err")) for o in resp["results"][0]][:4], "ranks": ranks}
    return res


# ------------------------------------------------------------------------------------------------ exhaustive sub-domain
ENUM_ARGS = [("TS", "int"), ("TS", "bool"), ("TS", "str"), ("TSS", "int"), ("TSD", "int", ("TS", "int")), ("TSL", ("TS", "int"), 2)]
ENUM_PATS = [("c", "TS[int]"), ("c", "TS[bool]"), ("c", "TSS[int]"), ("ts", ("c", "int")), ("ts", ("c", "str")), ("ts", ("v", "T")), ("tss", ("v", "T")), ("tss", ("c", "int")),
             ("var", "V"), ("tsd", ("c", "int"), ("var", "V")), ("tsd", ("v", "T"), ("ts", ("v", "U"))), ("tsd", ("c", "int"), ("ts", ("c", "int"))),
             ("tsl", ("ts", ("v", "T")), 2), ("tslv", ("ts", ("c", "int")), "N"), ("tslv", ("var", "V"), "N")]


def extra_pass(ctx, tier, hseed, one, deadline):
    """all families of <= 3 one-parameter candidates over ENUM_PATS x ENUM_ARGS x all registration orders; the shards
    split the enumeration by index (shard id = hseed % 1000)."""
    import os
    n_shards = min(int(os.environ.get("VERIF_SHARDS", "16")), 16)
    shard = hseed % 1000
    idx = 0
    for size in (1, 2, 3):
        for combo in itertools.combinations(range(len(ENUM_PATS)), size):
            idx += 1
            if idx % n_shards != shard % n_shards:
                continue
            fam = [{"label": f"E{i}", "params": [ENUM_PATS[i]], "out": ("c", "TS[int]")} for i in combo]
            orders = [list(p) for p in itertools.permutations(range(size))]
            one({"family": fam, "orders": orders, "calls": [[a] for a in ENUM_ARGS], "enumerated": True})
