"""C08 — feedback delivers each value exactly one smallest time step later."""
from __future__ import annotations

from hypothesis import strategies as st

from hgv import gen
from hgv.model import Model
from hgv.runner import Result, Viol
from hgv.trace import Trace
from hgv.worker import HarnessError, Rejected

ID = "C08"
RULE = ("Programs with 1-3 feedback edges: accumulator self loops (x + fb), mutual loops (two nodes feeding each other through two "
        "feedbacks), pure relays of a scripted writer (TS[int], TSS[int], TSD[int,TS[int]] shapes), with and without a declared initial "
        "value, readers marked passive or active, at top level or inside a nested child graph; producers write on consecutive smallest "
        "steps, with gaps, several loops in one cycle. A recorder sits on every producer port and on every feedback reader port. "
        "Non-trivial = some producer wrote at t and t+1 (back-to-back) and at least two feedback edges delivered in one cycle, or the "
        "loop lives inside a nested graph. Distinct = canonical JSON of the program.")
ASSUMPTIONS = ["delivery beyond end_time is not required (t+1 >= end)"]


def examples(tier):
    return 5000 if tier == "quick" else 80000


def budget_s(tier):
    return 70 if tier == "quick" else 600


def _set_script(draw, start, end, n, empty_first=False):
    """every cycle toggles a few DISTINCT elements once each (cancelling pairs within a cycle are C05's subject).
    empty_first: the very first write is the empty collection (a tick that only makes the output valid)."""
    live, out = set(), []
    for t in draw(gen.time_set(start, end - 1, 1, n)):
        if empty_first and not out:
            out.append([t, [{"k": "S", "ops": [["touch"]]}]])
            continue
        ops = []
        for e in draw(st.lists(st.integers(0, 6), min_size=1, max_size=3, unique=True)):
            if e in live:
                live.discard(e)
                ops.append(["rem", e])
            else:
                live.add(e)
                ops.append(["add", e])
        out.append([t, [{"k": "S", "ops": ops}]])
    return out


def _dict_script(draw, start, end, n, empty_first=False):
    """every cycle touches a few DISTINCT keys once each: set (new or update) or erase of a live key."""
    live, out = set(), []
    for t in draw(gen.time_set(start, end - 1, 1, n)):
        if empty_first and not out:
            out.append([t, [{"k": "D", "ops": [["touch"]]}]])
            continue
        ops = []
        for e in draw(st.lists(st.integers(0, 5), min_size=1, max_size=3, unique=True)):
            if e in live and draw(st.integers(0, 2)) == 0:
                live.discard(e)
                ops.append(["erase", e])
            else:
                live.add(e)
                ops.append(["set", e, draw(st.integers(0, 50))])
        out.append([t, [{"k": "D", "ops": ops}]])
    return out


@st.composite
def loops(draw, start, end, big):
    """statements for 1-3 feedback loops over shared sources; returns (stmts, edges) with edges = [(fb, producer, passive, init)]."""
    stmts, edges = [], []
    for i in range(draw(st.integers(1, 2))):
        stmts.append({"id": f"s{i}", "op": "src", "schema": "TS[int]", "script": draw(gen.int_script(start, end - 1, max_size=9 if big else 6, min_size=1))})
    srcs = [s["id"] for s in stmts]
    n = draw(st.integers(1, 3))
    k = 0
    while k < n:
        kind = draw(st.sampled_from(["acc", "acc", "mutual", "relay_int", "relay_set", "relay_dict", "relay_bundle", "relay_list"]))
        init = draw(st.integers(0, 9)) if draw(st.booleans()) else None
        passive = draw(st.integers(0, 3)) != 0
        if kind == "acc":
            fb = f"fb{k}"
            stmts.append({"id": fb, "op": "fb", "schema": "TS[int]", **({"init": init} if init is not None else {})})
            src_ = draw(st.sampled_from(srcs))
            twin = passive and draw(st.integers(0, 2)) == 0
            if twin:
                # the same node definition over the same ports, reading the feedback ACTIVELY, wired first and eligible for
                # sharing: the passive reader below differs from it only by the passive marker and must stay a node of its own
                stmts.append({"id": f"tw{k}", "op": "node", "ins": [src_, fb], "out": "TS[int]", "fn": "sum", "valid": [0], "coef": [1, 1], "uniq": False})
            stmts.append({"id": f"a{k}", "op": "node", "ins": [src_, {"r": fb, "passive": passive}], "out": "TS[int]",
                          "fn": "sum", "valid": [0], "coef": [1, 1], **({"uniq": False} if twin else {})})
            stmts.append({"id": f"b{k}", "op": "fb_bind", "fb": fb, "src": f"a{k}"})
            edges.append((fb, f"a{k}", passive, init, "TS[int]"))
            k += 1
        elif kind == "mutual":
            f1, f2 = f"fb{k}", f"fb{k + 1}"
            init2 = draw(st.integers(0, 9)) if draw(st.booleans()) else None
            stmts.append({"id": f1, "op": "fb", "schema": "TS[int]", **({"init": init} if init is not None else {})})
            stmts.append({"id": f2, "op": "fb", "schema": "TS[int]", **({"init": init2} if init2 is not None else {})})
            # p reads fb of q, q reads fb of p
            stmts.append({"id": f"a{k}", "op": "node", "ins": [draw(st.sampled_from(srcs)), {"r": f2, "passive": True}], "out": "TS[int]", "fn": "sum", "valid": [0]})
            stmts.append({"id": f"a{k + 1}", "op": "node", "ins": [draw(st.sampled_from(srcs)), {"r": f1, "passive": passive}], "out": "TS[int]", "fn": "sum", "valid": [0]})
            stmts.append({"id": f"b{k}", "op": "fb_bind", "fb": f1, "src": f"a{k}"})
            stmts.append({"id": f"b{k + 1}", "op": "fb_bind", "fb": f2, "src": f"a{k + 1}"})
            edges.append((f1, f"a{k}", passive, init, "TS[int]"))
            edges.append((f2, f"a{k + 1}", True, init2, "TS[int]"))
            k += 2
        else:
            schema = {"relay_int": "TS[int]", "relay_set": "TSS[int]", "relay_dict": "TSD[int,TS[int]]",
                      "relay_bundle": "TSB[f0:TS[int],f1:TS[int],f2:TS[int]]", "relay_list": "TSL[TS[int],3]"}[kind]
            fb, w = f"fb{k}", f"w{k}"
            if kind == "relay_int":
                script = draw(gen.int_script(start, end - 1, max_size=9 if big else 6, min_size=1))
            elif kind in ("relay_bundle", "relay_list"):
                # child-only writes: a field / element may tick late or never, so the composite is partially valid for a while
                script = []
                fields = draw(st.lists(st.integers(0, 2), min_size=1, max_size=3, unique=True))
                for t in draw(gen.time_set(start, end - 1, 1, 7 if big else 5)):
                    idx = draw(st.lists(st.sampled_from(fields), min_size=1, max_size=len(fields), unique=True))
                    script.append([t, [{"k": "i", "i": i_, "op": {"k": "set", "v": draw(st.integers(0, 50))}} for i_ in idx]])
            elif kind == "relay_set":
                script = _set_script(draw, start, end, 7 if big else 5, empty_first=draw(st.integers(0, 2)) == 0)
            else:
                script = _dict_script(draw, start, end, 7 if big else 5, empty_first=draw(st.integers(0, 2)) == 0)
            stmts.append({"id": w, "op": "src", "schema": schema, "script": script})
            fbs = {"id": fb, "op": "fb", "schema": schema}
            if init is not None and kind == "relay_int":
                fbs["init"] = init
            else:
                init = None
            stmts.append(fbs)
            stmts.append({"id": f"b{k}", "op": "fb_bind", "fb": fb, "src": w})
            edges.append((fb, w, None, init, schema))
            k += 1
    for j, (fb, prod, passive, init, schema) in enumerate(edges):
        stmts.append({"id": f"rp{j}", "op": "node", "ins": [prod], "deep": True})
        stmts.append({"id": f"rf{j}", "op": "node", "ins": [fb], "deep": True})
    return stmts, edges


@st.composite
def program(draw, tier):
    big = tier == "thorough"
    start = draw(st.sampled_from([0, 0, 5, 300000]))
    horizon = draw(st.integers(4, 40 if big else 16))
    end = start + horizon
    stmts, edges = draw(loops(start, end, big))
    nested = draw(st.integers(0, 3)) == 0
    info = [{"fb": e[0], "prod": e[1], "passive": e[2], "init": e[3], "schema": e[4], "rp": f"rp{j}", "rf": f"rf{j}"} for j, e in enumerate(edges)]
    mapped = (not nested) and draw(st.sampled_from([0, 1, 2, 3, 4, 5])) == 0
    if mapped:
        # the whole loop lives inside EVERY child of a map_ over two keys that are there from the start; the keys' elements tick
        # at other times than the loops write, so a child waiting for its delivery cycle sees its sibling being woken
        body = stmts + [{"id": "ret", "op": "node", "ins": [edges[0][1]] if edges[0][4] == "TS[int]" else ["s0"], "out": "TS[int]", "fn": "sum"}]
        sub = {"params": ["TS[int]"], "names": ["x"], "out": "TS[int]", "stmts": body, "ret": "ret"}
        dsc = [[start, [{"k": "D", "ops": [["set", 1, 0], ["set", 2, 0]]}]]] + \
              [[t, [{"k": "D", "ops": [["set", draw(st.integers(1, 2)), t]]}]] for t in draw(gen.time_set(start + 1, end - 1, 0, 6))]
        top = [{"id": "dd", "op": "src", "schema": "TSD[int,TS[int]]", "script": dsc},
               {"id": "mp", "op": "op", "name": "map_", "args": [{"fn": "g"}, {"ts": "dd"}], "has_out": True},
               {"id": "out", "op": "node", "ins": ["mp"], "valid": []}]
        return {"prog": {"start": start, "end": end, "stmts": top, "subs": {"g": sub}}, "edges": info, "nested": True, "mapped": True}
    if not nested:
        return {"prog": {"start": start, "end": end, "stmts": stmts}, "edges": info, "nested": False}
    # the whole loop lives inside a nested child graph; absolute source scripts still apply (child starts with the root)
    body = stmts + [{"id": "ret", "op": "node", "ins": [edges[0][1]] if edges[0][4] == "TS[int]" else ["s0"], "out": "TS[int]", "fn": "sum"}]
    sub = {"params": ["TS[int]"], "out": "TS[int]", "stmts": body, "ret": "ret"}
    top = [{"id": "drv", "op": "src", "schema": "TS[int]", "script": [[start, [{"k": "set", "v": 0}]]]},
           {"id": "nest", "op": "nested", "sub": "g", "ins": ["drv"]},
           {"id": "out", "op": "node", "ins": ["nest"]}]
    return {"prog": {"start": start, "end": end, "stmts": top, "subs": {"g": sub}}, "edges": info, "nested": True}


def strategy(tier):
    return program(tier)


def check(case, ctx) -> Result:
    res = Result()
    prog = case["prog"]
    resp = ctx.run(prog)
    if resp.get("crash"):
        res.violations.append(Viol("engine_crash", f"worker died: {resp.get('signal')} {resp.get('stderr', '')[-400:]}"))
        return res
    if not resp.get("built"):
        raise Rejected(f"C08 generator produced a program the tree rejects: {resp.get('error')}")
    if resp.get("error"):
        res.violations.append(Viol("run_failed", f"run() threw on a valid program: {resp['error']}"))
        return res
    tr = Trace(resp["trace"])
    start, end = prog["start"], prog["end"]
    prefix = "g." if case["nested"] else ""
    back_to_back = False
    deliveries = {}
    gids = sorted({x[1] for x in resp["trace"] if x[0] == "gs" and isinstance(x[1], str) and x[1].count("/") == 1}) if case.get("mapped") else [None]
    if case.get("mapped"):
        res.labels.append("loop_inside_map_children")
    for gid_, e in [(g_, e_) for g_ in gids for e_ in case["edges"]]:
        W = [(t, val, cd) for (t, val, cd) in tr.stream(prefix + e["rp"], 0, gid_)]
        F = [(t, val, cd) for (t, val, cd) in tr.stream(prefix + e["rf"], 0, gid_)]
        if any(b[0] == a[0] + 1 for a, b in zip(W, W[1:])):
            back_to_back = True
        exp = []
        if e["init"] is not None:
            exp.append((start, e["init"], e["init"]))
        exp += [(t + 1, val, cd) for (t, val, cd) in W if t + 1 < end]
        # an initial value and a write at start both... a write at `start` is delivered at start+1: no clash with init
        if [x[0] for x in F] != [x[0] for x in exp]:
            ft, et = [x[0] for x in F], [x[0] for x in exp]
            same_cycle = [t for t in ft if t in {w[0] for w in W} and t not in et]
            lost = [t for t in et if t not in ft]
            extra = [t for t in ft if t not in et]
            clause = "delivered_in_producing_cycle" if same_cycle and not lost else "lost_delivery" if lost else "extra_delivery"
            res.violations.append(Viol(clause, f"feedback {e['fb']} ({e['schema']}): producer wrote at {[w[0] for w in W][:14]}, reader saw ticks at {ft[:14]}, expected {et[:14]}"))
            continue
        for g, x in zip(F, exp):
            if g[2] != x[2] or (e["schema"] == "TS[int]" and g[1] != x[1]):
                res.violations.append(Viol("wrong_value_delivered", f"feedback {e['fb']} ({e['schema']}) at t={g[0]}: reader saw delta {g[2]} value {g[1]}, the value written one step earlier was delta {x[2]} value {x[1]}"))
                break
        for t, _, _ in F:
            deliveries[t] = deliveries.get(t, 0) + 1
    multi = any(v >= 2 for v in deliveries.values())
    # quiescence / full agreement with the reference model (top-level programs)
    if not case["nested"] and not res.violations and all(e["schema"] == "TS[int]" for e in case["edges"]):
        model = Model(prog).run()
        cyc = [c.t for c in tr.root_cycles()]
        if cyc != model.cycles:
            extra = [t for t in cyc if t not in set(model.cycles)]
            clause = "loop_not_quiescent" if extra and all(e["passive"] is not False for e in case["edges"]) else "cycle_times_differ"
            res.violations.append(Viol(clause, f"root cycles {cyc[:24]} but the delay-one model gives {model.cycles[:24]}"))
        else:
            for lbl, exp in model.evals.items():
                got = [(d["t"], d["x"].get("out")) for d in tr.evals_of(lbl, "r")]
                if got != [(t, o) for (t, _, o) in exp]:
                    res.violations.append(Viol("loop_values_differ", f"node {lbl}: evaluations (t, out) {got[:10]} but the delay-one model gives {[(t, o) for (t, _, o) in exp][:10]}"))
                    break
    if '"touch"' in __import__("json").dumps(prog):
        res.labels.append("first_write_is_empty_collection")
    if back_to_back:
        res.labels.append("back_to_back")
    if multi:
        res.labels.append("two_deliveries_one_cycle")
    if case["nested"]:
        res.labels.append("nested")
    if any(e["passive"] is False for e in case["edges"]):
        res.labels.append("active_reader")
    if any(e["init"] is not None for e in case["edges"]):
        res.labels.append("initial_value")
    for e in case["edges"]:
        if e["schema"] != "TS[int]":
            res.labels.append("collection_shape")
            break
    res.nontrivial = (back_to_back and multi) or case["nested"]
    res.summary = {"cycles": [c.t for c in tr.root_cycles()][:30], "edges": [(e["fb"], e["schema"], e["passive"], e["init"]) for e in case["edges"]]}
    return res
