"""C11 — reduce equals the fold over exactly the currently valid elements."""
from __future__ import annotations

from functools import reduce as _fold

from hypothesis import strategies as st

from hgv import gen
from hgv import tsmodel as tm
from hgv.runner import Result, Viol
from hgv.trace import Trace
from hgv.worker import HarnessError, Rejected

ID = "C11"
ASAN_THOROUGH = True   # thorough tier runs against the AddressSanitizer build
RULE = ("reduce(C, coll[, zero]) with an associative-commutative combiner C (a two-input harness node computing +, max or xor, a "
        "two-node sub-graph computing the same, or the library operator add_/max_/min_/bit_xor itself) over (a) a scripted TSD[int,TS[int]] with adds, updates, removes, several per cycle, "
        "shrink to empty and regrow, bursts crossing 1/2/4/8/16/32 live keys, or (b) a fixed TSL[TS[int],n] whose elements become valid "
        "at different times; with and without a zero that is NOT the combiner's identity. The result endpoint is read at every cycle in "
        "which the collection or the result ticked and must equal the fold of the currently valid elements (invalid when empty and no "
        "zero; zero when empty; combine(v, zero) for one element; no zero once >= 2). Non-trivial = a removal that takes the live count "
        "across a power of two followed by an update of a surviving element, or shrink-to-empty followed by regrowth. Distinct = "
        "canonical JSON of the case.")
ASSUMPTIONS = ["same-cycle erase + re-write of one key is not generated (F6/F7 are owned by C05)",
               "intermediate aggregates inside a cycle are not constrained: values are read at the end of the combiner's evaluation"]

OPS = {"sum": lambda a, b: a + b, "max": max, "xor": lambda a, b: a ^ b, "min": min,
       "mul": lambda a, b: ((a * b + 2 ** 63) % 2 ** 64) - 2 ** 63}      # 64-bit wrap-around, as the engine's Int
DIRECT = {"sum": "add_", "max": "max_", "min": "min_", "mul": "mul_"}   # the operator ITSELF as the function value (lifted-kernel path of the reduce node)
LIB = {"sum": "add_", "max": "max_", "xor": "bit_xor", "min": "min_"}   # the library's own binary operators as combiners


def examples(tier):
    return 4000 if tier == "quick" else 60000


def budget_s(tier):
    return 80 if tier == "quick" else 600


@st.composite
def case(draw, tier):
    big = tier == "thorough"
    start = 0
    horizon = draw(st.integers(4, 40 if big else 18))
    comb = draw(st.sampled_from(["sum", "sum", "max", "xor"]))
    two_node = draw(st.integers(0, 3)) == 0
    # the combiner is a harness node, a two-node sub-graph, or the library operator itself (a static node behind the
    # operator registry)
    lib = (not two_node) and draw(st.integers(0, 2)) == 0
    if lib and draw(st.booleans()):
        comb = "min"
    # ... or the library operator passed directly as the function (not wrapped in a sub-graph)
    direct = lib and draw(st.booleans())
    if direct:
        comb = draw(st.sampled_from(["sum", "max", "min", "mul"]))
    zero = draw(st.sampled_from([None, None, 1000, 7, 0]))
    kind = draw(st.sampled_from(["TSD", "TSD", "TSD", "TSL", "DTSL"]))
    if kind == "TSD":
        opts = {"cancel": True, "multi": True, "no_rewrite": True, "grow": draw(st.integers(0, 2)) == 0, "keys": draw(st.sampled_from([2, 4, 9, 17]))}
        script = draw(tm.history(("TSD", "int", ("TS", "int")), start, horizon, opts, max_cycles=16 if big else 9))
        n = 0
    elif kind == "DTSL":
        # dynamic (grow-only) list: writing at an index beyond the current length grows it; holes stay invalid
        n = 0
        script, top = [], 0
        for t in draw(gen.time_set(start, start + horizon - 1, 1, 12 if big else 7)):
            ops = []
            for _ in range(draw(st.integers(1, 3))):
                i = draw(st.integers(0, min(top + 2, 20 if big else 10)))
                top = max(top, i)
                ops.append({"k": "i", "i": i, "op": {"k": "set", "v": draw(st.integers(-3, 30))}})
            script.append([t, ops])
    else:
        n = draw(st.integers(1, 6 if big else 4))
        script = draw(tm.history(("TSL", ("TS", "int"), n), start, horizon, {"multi": True}, max_cycles=12 if big else 7))
    # the zero may be a LIVE time-series (valid from the first cycle, ticking again later): the result then follows it while the
    # collection is empty or holds one element, and must not move with it once two or more elements are live
    zero_script = None
    if zero is not None and kind != "TSL" and draw(st.integers(0, 2)) == 0:      # (no reduce overload takes a fixed-size list with a live zero)
        zero_script = [[start, zero]] + [[t, draw(st.sampled_from([0, 3, 7, 1000]))] for t in draw(gen.time_set(start + 1, start + horizon - 1, 0, 3))]
    return {"direct": direct, "start": start, "end": start + horizon, "comb": comb, "two_node": two_node, "lib": lib, "zero": zero, "zero_script": zero_script, "kind": kind, "n": n, "script": script}


@st.composite
def keyed_case(draw, tier):
    """a reduction whose ELEMENTS are dictionaries (TSD[int, TSD[int, TS[int]]]) with the key-wise sum as combiner: the result
    is itself a dictionary, published through the keyed publication path of the reduce node"""
    big = tier == "thorough"
    start = 0
    horizon = draw(st.integers(4, 30 if big else 16))
    opts = {"cancel": True, "multi": True, "no_rewrite": True, "keys": draw(st.sampled_from([2, 3, 5, 9]))}
    script = draw(tm.history(("TSD", "int", ("TSD", "int", ("TS", "int"))), start, horizon, opts, max_cycles=14 if big else 9))
    return {"kind": "KEYED", "start": start, "end": start + horizon, "script": script}


def strategy(tier):
    return st.one_of(case(tier), case(tier), case(tier), case(tier), keyed_case(tier))


def check_keyed(case, ctx) -> Result:
    res = Result()
    schema = ("TSD", "int", ("TSD", "int", ("TS", "int")))
    C = {"params": ["TSD[int,TS[int]]", "TSD[int,TS[int]]"], "names": ["lhs", "rhs"], "out": "TSD[int,TS[int]]", "ret": "c",
         "stmts": [{"id": "c", "op": "node", "ins": [{"arg": 0}, {"arg": 1}], "out": "TSD[int,TS[int]]", "fn": "dsum", "valid": [], "log_inputs": False}]}
    prog = {"start": case["start"], "end": case["end"], "subs": {"C": C}, "stmts": [
        {"id": "d", "op": "src", "schema": tm.schema_str(schema), "script": case["script"]},
        {"id": "red", "op": "op", "name": "reduce", "args": [{"fn": "C"}, {"ts": "d"}], "has_out": True},
        {"id": "rec", "op": "node", "ins": ["red", "d"], "valid": [], "deep": True}]}
    resp = ctx.run(prog)
    if resp.get("crash"):
        res.violations.append(Viol("engine_crash", f"keyed reduce: worker died {resp.get('signal')} {resp.get('stderr', '')[-500:]}"))
        return res
    if not resp.get("built"):
        raise Rejected(f"C11 generator produced a keyed-reduce program the tree rejects: {resp.get('error')}")
    feats = {"kind": "KEYED", "zero": False}
    if resp.get("error"):
        res.violations.append(Viol("run_failed", f"keyed reduce threw: {resp['error']}", feats))
        return res
    seen = {}
    for d in Trace(resp["trace"]).evals_of("rec", "r"):
        i = d["ins"][0]
        seen[d["t"]] = (bool(i.get("v")), {k: c.get("val") for k, c in ((i.get("acc") or {}).get("ch") or []) if c.get("v")} if i.get("v") else None)
    m = tm.M(schema)
    shrunk = regrown = False
    prev_live = 0
    for t, ops in case["script"]:
        m.begin_cycle()
        for op in ops:
            m.apply(op, t)
        if not m.modified():
            continue
        elems = [{k: c.value for k, c in inner.value.items() if c.valid} for _, inner in sorted(m.value.items()) if inner.valid]
        live = len(elems)
        exp = {}
        for e_ in elems:
            for k, v in e_.items():
                exp[k] = exp.get(k, 0) + v
        if live < prev_live:
            shrunk = True
        elif shrunk and live > prev_live:
            regrown = True
        prev_live = live
        got = seen.get(t)
        if got is None:
            res.violations.append(Viol("no_evaluation_on_collection_tick", f"t={t}: the collection ticked but the consumer bound to it and to the result was not evaluated", feats))
            break
        if live == 0:
            # an emptied keyed reduction without a zero: the unchanged tree publishes a valid EMPTY dictionary instead of going
            # invalid (an agent's note on the unchanged tree, wave 7); both are accepted here, a non-empty result is not
            if got[0] and got[1]:
                res.violations.append(Viol("result_differs_from_fold", f"t={t}: the collection holds no valid element but the result is {got[1]}", dict(feats, live=0)))
                break
            if got[0] and not m.value:
                # F32: no element left at all, no zero, and the result stays VALID (an empty dictionary)
                res.violations.append(Viol("result_validity_wrong", f"t={t}: the collection is empty and there is no zero, but the keyed result is valid (empty dictionary) instead of invalid", dict(feats, live=0, emptied_keyed_reduce=True)))      # recorded; the rest of the history is still compared
            continue
        if not exp:
            # every live element is an empty dictionary: an empty result, valid or not, is accepted (whether an element that
            # was created and emptied counts as a value is C05 territory)
            if got[0] and got[1]:
                res.violations.append(Viol("result_differs_from_fold", f"t={t}: every live element is empty but the result is {got[1]}", dict(feats, live=min(live, 3))))
                break
            continue
        if not got[0]:
            res.violations.append(Viol("result_validity_wrong", f"t={t}: result invalid but {live} valid elements {elems[:6]} are live", dict(feats, live=min(live, 3))))
            break
        if got[1] != exp:
            res.violations.append(Viol("result_differs_from_fold", f"t={t}: keyed result {got[1]} but the key-wise sum over the {live} valid elements {elems[:6]} is {exp}", dict(feats, live=min(live, 3))))
            break
    res.nontrivial = shrunk and regrown
    res.labels.append("kind_KEYED")
    if shrunk:
        res.labels.append("keyed_reduce_shrunk")
    res.summary = {"ticks_seen": sorted(seen)[:20]}
    return res


def check(case, ctx) -> Result:
    if case.get("kind") == "KEYED":
        return check_keyed(case, ctx)
    res = Result()
    comb = case["comb"]
    if case["two_node"]:
        C = {"params": ["TS[int]", "TS[int]"], "names": ["lhs", "rhs"], "out": "TS[int]", "ret": "c1", "stmts": [
            {"id": "c0", "op": "node", "ins": [{"arg": 0}], "out": "TS[int]", "fn": "sum", "log_inputs": False},
            {"id": "c1", "op": "node", "ins": ["c0", {"arg": 1}], "out": "TS[int]", "fn": comb, "log_inputs": False}]}
    elif case.get("lib"):
        C = {"params": ["TS[int]", "TS[int]"], "names": ["lhs", "rhs"], "out": "TS[int]", "ret": "c",
             "stmts": [{"id": "c", "op": "op", "name": LIB.get(comb, "mul_"), "args": [{"ts": {"arg": 0}}, {"ts": {"arg": 1}}], "has_out": True}]}
    else:
        C = {"params": ["TS[int]", "TS[int]"], "names": ["lhs", "rhs"], "out": "TS[int]", "ret": "c",
             "stmts": [{"id": "c", "op": "node", "ins": [{"arg": 0}, {"arg": 1}], "out": "TS[int]", "fn": comb, "log_inputs": False}]}
    schema = ("TSD", "int", ("TS", "int")) if case["kind"] == "TSD" else ("TSL", ("TS", "int"), case["n"])
    dyn = {}   # dynamic list model: index -> value
    zs = case.get("zero_script")
    args = [{"fn_op": DIRECT[comb]} if case.get("direct") else {"fn": "C"}, {"ts": "d"}] + ([{"ts": "z"}] if zs else [{"sc": case["zero"], "t": "int"}] if case["zero"] is not None else [])
    prog = {"start": case["start"], "end": case["end"], "subs": {"C": C}, "stmts": [
        {"id": "d", "op": "src", "schema": tm.schema_str(schema), "script": case["script"]}] +
        ([{"id": "z", "op": "src", "schema": "TS[int]", "script": [[t, [{"k": "set", "v": v}]] for t, v in zs]}] if zs else []) + [
        {"id": "red", "op": "op", "name": "reduce", "args": args, "has_out": True},
        {"id": "rec", "op": "node", "ins": ["red", "d"] + (["z"] if zs else []), "valid": [], "deep": False}]}
    resp = ctx.run(prog)
    if resp.get("crash"):
        res.violations.append(Viol("engine_crash", f"worker died {resp.get('signal')} {resp.get('stderr', '')[-500:]}"))
        return res
    if not resp.get("built"):
        raise Rejected(f"C11 generator produced a program the tree rejects: {resp.get('error')}")
    if resp.get("error"):
        res.violations.append(Viol("run_failed", f"run threw: {resp['error']}"))
        return res
    tr = Trace(resp["trace"])
    seen = {d["t"]: d["ins"][0] for d in tr.evals_of("rec", "r")}
    m = tm.M(schema)
    f = OPS[comb]
    zero = case["zero"]
    feats = {"kind": case["kind"], "zero": zero is not None, "comb": comb}
    prev_live = 0
    crossed_then_update = emptied_then_regrown = False
    crossed = emptied = False
    first_write = None
    by_t = {t: ops for t, ops in case["script"]}
    zero_at = dict(map(tuple, zs)) if zs else {}
    vals = []
    for t in sorted(set(by_t) | set(zero_at)):
        if t in zero_at:
            zero = zero_at[t]
        ops = by_t.get(t)
        if ops is None:
            # only the live zero ticked: the collection is as it was
            modified_now = bool(first_write is not None or True)
            live = len(vals)
            if not vals:
                exp_valid, exp = True, zero
            elif len(vals) == 1:
                exp_valid, exp = True, f(vals[0], zero)
            else:
                exp_valid, exp = True, _fold(f, vals)
            got = seen.get(t)
            if got is None:
                res.violations.append(Viol("no_evaluation_on_collection_tick", f"t={t}: the live zero ticked but the consumer bound to it and to the result was not evaluated", feats))
                break
            if bool(got["v"]) != exp_valid or got["val"] != exp:
                res.violations.append(Viol("result_differs_from_fold", f"t={t} (only the live zero ticked, now {zero}): result valid={got['v']} value {got.get('val')} but the fold over {len(vals)} valid elements {vals[:12]} is {exp}", dict(feats, live=min(live, 3), live_zero=True)))
                break
            continue
        if case["kind"] == "DTSL":
            for op in ops:
                dyn[op["i"]] = op["op"]["v"]
            vals = [v for _, v in sorted(dyn.items())]
            modified_now = True
        else:
            m.begin_cycle()
            for op in ops:
                m.apply(op, t)
            modified_now = m.modified()
        if first_write is None and modified_now:
            first_write = t
        if case["kind"] == "DTSL":
            pass
        elif case["kind"] == "TSD":
            vals = [c.value for k, c in sorted(m.value.items()) if c.valid]
        else:
            vals = [c.value for c in m.value if c.valid]
        live = len(vals)
        if live < prev_live and any(live < p <= prev_live for p in (1, 2, 4, 8, 16, 32)):
            crossed = True
        elif crossed and live == prev_live and live > 0:
            crossed_then_update = True
        if prev_live > 0 and live == 0:
            emptied = True
        if emptied and live > 0:
            emptied_then_regrown = True
        prev_live = live
        if not vals:
            exp_valid, exp = (zero is not None), zero
        elif len(vals) == 1:
            exp_valid, exp = True, (f(vals[0], zero) if zero is not None else vals[0])
        else:
            exp_valid, exp = True, _fold(f, vals)
        got = seen.get(t)
        if got is None:
            # the recorder is bound to the collection too: it must have been evaluated in every scripted cycle with an effective write
            if modified_now:
                res.violations.append(Viol("no_evaluation_on_collection_tick", f"t={t}: the collection ticked but the consumer bound to it and to the result was not evaluated", feats))
                break
            continue
        if bool(got["v"]) != exp_valid:
            res.violations.append(Viol("result_validity_wrong", f"t={t}: result valid={got['v']} (value {got.get('val')}) but the fold over {len(vals)} valid elements {vals[:12]} with zero={zero} is {'valid ' + str(exp) if exp_valid else 'invalid'}", dict(feats, live=min(live, 3))))
            break
        if exp_valid and got["val"] != exp:
            res.violations.append(Viol("result_differs_from_fold", f"t={t}: result {got['val']} but fold({comb}) over {len(vals)} valid elements {vals[:12]} with zero={zero} is {exp}", dict(feats, live=min(live, 3))))
            break
    res.nontrivial = crossed_then_update or emptied_then_regrown
    if crossed_then_update:
        res.labels.append("reshape_then_update")
    if emptied_then_regrown:
        res.labels.append("empty_then_regrow")
    res.labels.append("kind_" + case["kind"])
    res.labels.append("with_zero" if zero is not None else "no_zero")
    if zs:
        res.labels.append("live_zero" + ("_ticking" if len(zs) > 1 else ""))
    if case["two_node"]:
        res.labels.append("subgraph_combiner")
    if case.get("lib"):
        res.labels.append("library_operator_combiner")
    if case.get("direct"):
        res.labels.append("library_operator_passed_directly")
    if prev_live >= 9:
        res.labels.append("nine_plus_live_at_end")
    res.summary = {"ticks_seen": sorted(seen)[:20], "comb": comb, "zero": zero}
    return res
