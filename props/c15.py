"""C15 — captured errors tick once, where they happen, and do not disturb the rest."""
from __future__ import annotations

import copy

from hypothesis import strategies as st

from hgv import gen
from hgv.runner import Result, Viol
from hgv.trace import Trace
from hgv.worker import HarnessError, Rejected

ID = "C15"
RULE = ("Three shapes. (node) a throwing compute node under exception_time_series (activate_error_capture + its error output), with "
        "independent branches, a downstream consumer and optionally a second capturing thrower; (try) the thrower inside a sub-graph "
        "wrapped by try_except; (map) map_ over a dictionary where the child of chosen keys throws, with the map's keyed error output. "
        "Throw schedules: first cycle, consecutive cycles, together with the other failing node, while the node also re-arms its own "
        "scheduler. Each program is run with the faults (P) and without (P0). Oracle: run completes; every recorder not downstream of a "
        "failing node has an identical stream in P and P0; the error output ticks exactly in the throw cycles, once, with error_msg = "
        "the thrown text; in non-throw cycles the failing node's output equals P0's; in the keyed map errors appear under the failing key "
        "only. Non-trivial = a throw in a cycle where an independent branch also ticks, followed by a non-throwing evaluation of the same "
        "node. Distinct = canonical JSON of the case.")
ASSUMPTIONS = ["the ordinary output of the failing node in a throw cycle is unspecified and not compared"]


def examples(tier):
    return 5000 if tier == "quick" else 80000


def budget_s(tier):
    return 80 if tier == "quick" else 600


@st.composite
def case(draw, tier):
    big = tier == "thorough"
    horizon = draw(st.integers(4, 30 if big else 14))
    shape = draw(st.sampled_from(["node", "node", "try", "map", "libop"]))
    s0 = draw(gen.int_script(0, horizon - 1, max_size=9 if big else 6, min_size=2))
    s1 = draw(gen.int_script(0, horizon - 1, max_size=9 if big else 6, min_size=1))
    times0 = [t for t, _ in s0]
    # throw at a subset of the times the thrower will be evaluated (its input ticks), biased to runs and the first cycle
    throw_times = sorted(set(t for t in times0 if draw(st.integers(0, 2)) == 0) | ({times0[0]} if draw(st.booleans()) else set()))
    # self-scheduling thrower: re-arms a tagged alarm on every tick, or runs as a periodic timer; its alarm-driven evaluations
    # throw too (chosen by evaluation ordinal), so a throw can happen in a cycle fired by the node's own alarm
    self_sched = draw(st.sampled_from([None, None, None, "tick", "every", "every_tag"]))
    throw_ords = sorted(draw(st.sets(st.integers(0, 8), max_size=3))) if self_sched else []
    period = draw(st.integers(1, 3))
    second = shape == "node" and draw(st.integers(0, 2)) == 0
    keys = None
    if shape == "map":
        keys = {"live": sorted(draw(st.sets(st.integers(0, 5), min_size=1, max_size=4)))}
        keys["bad"] = [k for k in keys["live"] if draw(st.integers(0, 1)) == 0] or keys["live"][:1]
    # a node ranked BEFORE the thrower inside the wrapped / mapped graph (the cycle after a captured throw must start with it)
    pre = draw(st.booleans())
    # a self-scheduling sibling ranked AFTER the thrower inside the wrapped graph (known finding F17: it loses its alarms)
    sibling_timer = shape == "try" and draw(st.integers(0, 3)) == 0
    # (libop) the library's own floordiv_ - a lifted scalar kernel, not a harness node - under error capture: it throws when the
    # divisor is 0; the divisor's script is 0 at chosen times (1 there in the fault-free twin), optionally read passively
    libop = None
    if shape == "libop":
        sz = draw(gen.int_script(0, horizon - 1, max_size=6, min_size=1))
        zero_at = sorted(t for t, _ in sz if draw(st.booleans()))
        libop = {"sz": [[t, [{"k": "set", "v": 0 if t in zero_at else abs(ops[-1]["v"]) + 1}]] for t, ops in sz], "zero_at": zero_at,
                 "passive": draw(st.integers(0, 2)) == 0, "name": draw(st.sampled_from(["floordiv_", "floordiv_", "mod_"]))}
    return {"multiline": draw(st.integers(0, 2)) == 0, "libop": libop, "pre": pre, "sibling_timer": sibling_timer, "end": horizon, "shape": shape, "s0": s0, "s1": s1, "throw_times": throw_times, "self_sched": self_sched,
            "throw_ords": throw_ords, "period": period,
            "second": second, "fn": draw(st.sampled_from(["sum", "acc", "count"])), "keys": keys}


def strategy(tier):
    return case(tier)


def build(case, faults: bool):
    end = case["end"]
    thr = {"time": case["throw_times"], "ord": case.get("throw_ords", []), "multiline": bool(case.get("multiline"))} if faults else None
    stmts = [{"id": "s0", "op": "src", "schema": "TS[int]", "script": case["s0"]},
             {"id": "s1", "op": "src", "schema": "TS[int]", "script": case["s1"]},
             # independent branch
             {"id": "ind", "op": "node", "ins": ["s1", "s0"], "out": "TS[int]", "fn": "acc", "valid": [], "log_inputs": False},
             {"id": "r_ind", "op": "node", "ins": ["ind"]}]
    subs = {}
    T = {"id": "T", "op": "node", "ins": ["s0"], "out": "TS[int]", "fn": case["fn"], "bias": 3, "log_inputs": False}
    if case["self_sched"]:
        k = case.get("period", 2)
        T["sched"] = {"tick": [["s", "rel", 2, "a"]]} if case["self_sched"] in (True, "tick") else \
            {"every": [["s", "rel", k, "a"]]} if case["self_sched"] == "every_tag" else {"every": [["s", "rel", k, None]]}
        T["tags"] = ["a"]
    if thr:
        T["throw"] = thr
    if case["shape"] == "libop":
        lo = case["libop"]
        sz = [[t, [{"k": "set", "v": (1 if (not faults and ops[-1]["v"] == 0) else ops[-1]["v"])}]] for t, ops in lo["sz"]]
        stmts += [{"id": "sz", "op": "src", "schema": "TS[int]", "script": sz},
                  {"id": "T", "op": "op", "name": lo["name"], "args": [{"ts": "s0"}, {"ts": {"r": "sz", "passive": True} if lo["passive"] else "sz"}], "has_out": True},
                  {"id": "err", "op": "errcap", "of": "T"}, {"id": "r_T", "op": "node", "ins": ["T"]},
                  {"id": "r_err", "op": "node", "ins": ["err"], "deep": True},
                  {"id": "down", "op": "node", "ins": ["T", "s1"], "out": "TS[int]", "fn": "sum", "valid": [], "log_inputs": False}]
    elif case["shape"] == "node":
        stmts += [T, {"id": "err", "op": "errcap", "of": "T"}, {"id": "r_T", "op": "node", "ins": ["T"]},
                  {"id": "r_err", "op": "node", "ins": ["err"], "deep": True},
                  {"id": "down", "op": "node", "ins": ["T", "s1"], "out": "TS[int]", "fn": "sum", "valid": [], "log_inputs": False}]
        if case["second"]:
            T2 = {"id": "T2", "op": "node", "ins": ["s0", "s1"], "out": "TS[int]", "fn": "sum", "valid": [], "log_inputs": False}
            if thr:
                T2["throw"] = {"time": case["throw_times"][:2]}
            stmts += [T2, {"id": "err2", "op": "errcap", "of": "T2"}, {"id": "r_err2", "op": "node", "ins": ["err2"], "deep": True},
                      {"id": "r_T2", "op": "node", "ins": ["T2"]}]
    elif case["shape"] == "try":
        body = ([{"id": "pre", "op": "node", "ins": [{"arg": 0}], "out": "TS[int]", "fn": "sum", "bias": 100, "log_inputs": False}, dict(T, ins=["pre"])]
                if case.get("pre") else [dict(T, ins=[{"arg": 0}])]) + [{"id": "post", "op": "node", "ins": ["T"], "out": "TS[int]", "fn": "sum", "bias": 1, "log_inputs": False}]
        if case.get("sibling_timer"):
            # [.., T, tm, post]: tm re-arms itself 3 steps after every tick of x; post = T + 1000 * tm
            post = body.pop()
            body += [{"id": "tm", "op": "node", "ins": [{"arg": 0}], "out": "TS[int]", "fn": "count", "sched": {"tick": [["s", "rel", 3, None]]}, "log_inputs": False},
                     dict(post, ins=["T", "tm"], coef=[1, 1000], valid=[])]
        subs["G"] = {"params": ["TS[int]"], "names": ["x"], "out": "TS[int]", "stmts": body, "ret": "post"}
        stmts += [{"id": "te", "op": "op", "name": "try_except", "args": [{"fn": "G"}, {"ts": "s0"}], "has_out": True},
                  {"id": "r_te", "op": "node", "ins": ["te"], "deep": True, "valid": []}]
    else:
        live, bad = case["keys"]["live"], case["keys"]["bad"]
        # child: throws when its element value is negative; the dictionary script makes bad keys negative at the throw times
        body = [{"id": "f", "op": "node", "ins": [{"arg": 0}], "out": "TS[int]", "fn": case["fn"], "log_inputs": False}]
        if case.get("pre"):
            # sum with bias 0 and one input is the identity: `f` still sees the (possibly negative) element value
            body = [{"id": "pre", "op": "node", "ins": [{"arg": 0}], "out": "TS[int]", "fn": "sum", "log_inputs": False}, dict(body[0], ins=["pre"])]
        fnode = body[-1]
        if case["self_sched"] in ("every", "every_tag"):
            # periodic child: while its element is negative it throws in the cycles fired by its own alarm too
            fnode["sched"] = {"every": [["s", "rel", case.get("period", 2), "a" if case["self_sched"] == "every_tag" else None]]}
            fnode["tags"] = ["a"]
        if faults:
            fnode["throw"] = {"neg": True}
        subs["F"] = {"params": ["TS[int]"], "names": ["x"], "out": "TS[int]", "stmts": body, "ret": "f"}
        script = []
        for t, ops in case["s0"]:
            v = abs(ops[-1]["v"]) + 1
            dops = []
            for k in live:
                neg = faults and (k in bad) and (t in case["throw_times"])
                dops.append(["set", k, -v - k if (k in bad and t in case["throw_times"]) else v + k])
            script.append([t, [{"k": "D", "ops": dops}]])
        stmts += [{"id": "d", "op": "src", "schema": "TSD[int,TS[int]]", "script": script},
                  {"id": "m", "op": "op", "name": "map_", "args": [{"fn": "F"}, {"ts": "d"}], "has_out": True},
                  {"id": "err", "op": "errcap", "of": "m"},
                  {"id": "r_m", "op": "node", "ins": ["m"], "deep": True, "valid": []},
                  {"id": "r_err", "op": "node", "ins": ["err"], "deep": True, "valid": []},
                  # the same (intern-eligible) node definition on the key set of the ordinary output and on the key set of the ERROR
                  # output - same producer, same path, same schema TSS[int]: they must stay two nodes
                  {"id": "kA", "op": "node", "ins": [{"r": "m", "keyset": True}], "out": "TS[int]", "fn": "count", "uniq": False, "log_inputs": False},
                  {"id": "kE", "op": "node", "ins": [{"r": "err", "keyset": True}], "out": "TS[int]", "fn": "count", "uniq": False, "log_inputs": False},
                  {"id": "r_kA", "op": "node", "ins": ["kA"]}, {"id": "r_kE", "op": "node", "ins": ["kE"]}]
    prog = {"start": 0, "end": end, "stmts": stmts}
    if subs:
        prog["subs"] = subs
    return prog


def thrown_text(label, ordn, case):
    """the text the harness node throws in evaluation #ordn (harness/hv_nodes.cpp)"""
    return f"boom:{label}:eval:{ordn}" + (f"\n  second line of {label}\r\n  third line" if case.get("multiline") else "")


def errs_of(tr, label):
    out = []
    for d in tr.evals_of(label, "r"):
        i = d["ins"][0]
        if i.get("m"):
            v = i.get("val") or {}
            out.append((d["t"], v.get("error_msg") if isinstance(v, dict) else v))
    return out


def check(case, ctx) -> Result:
    res = Result()
    p, p0 = build(case, True), build(case, False)
    r, r0 = ctx.run(p), ctx.run(p0)
    for what, x in (("P", r), ("P0", r0)):
        if x.get("crash"):
            res.violations.append(Viol("engine_crash", f"{what}: worker died {x.get('signal')} {x.get('stderr', '')[-500:]}"))
            return res
        if not x.get("built"):
            raise Rejected(f"C15 generator produced a program the tree rejects ({what}): {x.get('error')}")
    if r0.get("error"):
        raise HarnessError(f"C15 fault-free program failed: {r0['error']}")
    feats = {"shape": case["shape"], "self_sched": bool(case["self_sched"]), "second": case["second"],
             "timer_ranked_after_thrower": bool(case.get("sibling_timer"))}
    if r.get("error"):
        res.violations.append(Viol("captured_error_escaped", f"run() threw although every failing node is captured: {str(r['error'].get('what'))[:300]}", feats))
        return res
    tr, tr0 = Trace(r["trace"]), Trace(r0["trace"])
    # independent branch identical
    a = [(t, v) for t, v, _ in tr.stream("r_ind")]
    b = [(t, v) for t, v, _ in tr0.stream("r_ind")]
    if a != b:
        k = next((i for i, (x, y) in enumerate(zip(a, b)) if x != y), min(len(a), len(b)))
        res.violations.append(Viol("independent_stream_disturbed", f"the stream of a node that does not depend on the failing node differs from the fault-free run at tick #{k}: {a[k:k + 2]} vs {b[k:k + 2]}", feats))
    throw_eval_times = [d["t"] for d in tr.user_evals if d["x"].get("throw") and d["label"] in ("T", "G.T")]
    if case["shape"] == "libop":
        lo = case["libop"]
        # when the kernel runs (both inputs valid, an active one ticked) and what its divisor is then, from the scripts
        s0t = {t: ops[-1]["v"] for t, ops in case["s0"]}
        szt = {t: ops[-1]["v"] for t, ops in lo["sz"]}
        cur0 = curz = None
        throw_eval_times, ok_evals = [], []
        for t in sorted(set(s0t) | set(szt)):
            if t in s0t:
                cur0 = s0t[t]
            if t in szt:
                curz = szt[t]
            if cur0 is None or curz is None or not (t in s0t or (t in szt and not lo["passive"])):
                continue
            (throw_eval_times if curz == 0 else ok_evals).append(t)
        errs = errs_of(tr, "r_err")
        if [t for t, _ in errs] != throw_eval_times:
            res.violations.append(Viol("error_ticks_wrong", f"{lo['name']} divided by zero at {throw_eval_times[:12]} but the error output ticked at {[t for t, _ in errs][:12]}", feats))
        elif any("zero" not in str(m) for _, m in errs):
            res.violations.append(Viol("error_message_wrong", f"error_msg values {[str(m)[:80] for _, m in errs][:3]} do not carry the kernel's 'division by zero' text", feats))
        o = [(t, v) for t, v, _ in tr.stream("r_T") if t not in throw_eval_times]
        o0 = [(t, v) for t, v, _ in tr0.stream("r_T") if t not in throw_eval_times]
        if o != o0:
            res.violations.append(Viol("failing_node_output_differs_later", f"outside the throw cycles {lo['name']} wrote {o[:8]}, in the fault-free run {o0[:8]}", feats))
        elif [t for t, _ in o] != ok_evals:
            res.violations.append(Viol("failing_node_not_reevaluated", f"{lo['name']} produced results at {[t for t, _ in o][:12]}, its inputs call for {ok_evals[:12]}", feats))
        ind_times = {t for t, _ in a}
        res.nontrivial = bool(throw_eval_times) and any(t in ind_times for t in throw_eval_times) and any(t > throw_eval_times[0] for t in ok_evals)
        res.labels += ["shape_libop", "library_kernel_" + lo["name"]] + (["throws_fired"] if throw_eval_times else []) + (["passive_divisor"] if lo["passive"] else [])
        res.summary = {"throw_times": throw_eval_times[:12], "shape": "libop"}
        return res
    if case["shape"] == "node":
        errs = errs_of(tr, "r_err")
        if [t for t, _ in errs] != throw_eval_times:
            res.violations.append(Viol("error_ticks_wrong", f"user code threw at {throw_eval_times[:12]} but the error output ticked at {[t for t, _ in errs][:12]}", feats))
        else:
            ords = {d["t"]: d["ord"] for d in tr.user_evals if d["x"].get("throw") and d["label"] == "T"}
            for (t, msg) in errs:
                if msg != thrown_text("T", ords.get(t), case):
                    res.violations.append(Viol("error_message_wrong", f"t={t}: error_msg is {str(msg)[:200]!r}, the exception text was {thrown_text('T', ords.get(t), case)!r}", dict(feats, multiline=bool(case.get("multiline")))))
                    break
        if case["second"]:
            thr2 = [d["t"] for d in tr.user_evals if d["x"].get("throw") and d["label"] == "T2"]
            e2 = errs_of(tr, "r_err2")
            if [t for t, _ in e2] != thr2:
                res.violations.append(Viol("error_ticks_wrong", f"second failing node threw at {thr2[:12]} but its error output ticked at {[t for t, _ in e2][:12]}", dict(feats, node="T2")))
            elif any(not str(m).startswith("boom:T2:") for _, m in e2):
                res.violations.append(Viol("error_message_wrong", f"second failing node's errors carry {[m for _, m in e2][:3]}", dict(feats, node="T2")))
        # the failing node is evaluated normally again: same evaluation times as P0, same outputs outside throw cycles
        ev = [(d["t"], d["x"].get("out")) for d in tr.evals_of("T", "r")]
        ev0 = [(d["t"], d["x"].get("out")) for d in tr0.evals_of("T", "r")]
        if [t for t, _ in ev] != [t for t, _ in ev0]:
            res.violations.append(Viol("failing_node_not_reevaluated", f"the failing node was evaluated at {[t for t, _ in ev][:14]}, in the fault-free run at {[t for t, _ in ev0][:14]}", feats))
        else:
            for (t, o), (_, o0) in zip(ev, ev0):
                if t not in throw_eval_times and o != o0:
                    res.violations.append(Viol("failing_node_output_differs_later", f"t={t} (no throw): the node wrote {o}, in the fault-free run {o0}", feats))
                    break
    elif case["shape"] == "try":
        errs, outs = [], []
        for d in tr.evals_of("r_te", "r"):
            i = d["ins"][0]
            ch = i.get("ch") or []
            if len(ch) == 2:
                if ch[0].get("m"):
                    errs.append((d["t"], (ch[0].get("val") or {}).get("error_msg")))
                if ch[1].get("m"):
                    outs.append((d["t"], ch[1].get("val")))
        outs0 = []
        for d in tr0.evals_of("r_te", "r"):
            ch = d["ins"][0].get("ch") or []
            if len(ch) == 2 and ch[1].get("m"):
                outs0.append((d["t"], ch[1].get("val")))
        if [t for t, _ in errs] != throw_eval_times:
            res.violations.append(Viol("error_ticks_wrong", f"the wrapped graph threw at {throw_eval_times[:12]} but the exception output ticked at {[t for t, _ in errs][:12]}", feats))
        else:
            ords = {d["t"]: d["ord"] for d in tr.user_evals if d["x"].get("throw") and d["label"] == "G.T"}
            bad = [(t, m) for t, m in errs if m != thrown_text("G.T", ords.get(t), case)]
            if bad:
                res.violations.append(Viol("error_message_wrong", f"exception output carries {[str(m)[:120] for _, m in bad][:3]}, thrown was {thrown_text('G.T', ords.get(bad[0][0]), case)!r}", dict(feats, multiline=bool(case.get("multiline")))))
        exp_out = [(t, v) for t, v in outs0 if t not in throw_eval_times]
        got_out = [(t, v) for t, v in outs if t not in throw_eval_times]
        if exp_out != got_out:
            res.violations.append(Viol("wrapped_output_differs_later", f"outside the throw cycles the wrapped graph's output is {got_out[:8]}, fault-free {exp_out[:8]}", feats))
    else:
        live, bad = case["keys"]["live"], case["keys"]["bad"]
        # the "failed keys" monitor watches the error output's key set only: nothing in the fault-free run, and never a tick in a
        # cycle without a failure in the faulty one
        ke0 = [t for t, _, _ in tr0.stream("r_kE")]
        ke = [t for t, _, _ in tr.stream("r_kE")]
        thr_t = {d["t"] for d in tr.user_evals if d["x"].get("throw")}
        if ke0:
            res.violations.append(Viol("error_under_wrong_key", f"a consumer of the map's ERROR key set ticked at {ke0[:8]} in the fault-free run (the ordinary key set's consumer ticked at {[t for t, _, _ in tr0.stream('r_kA')][:8]})", dict(feats, where="error_key_set")))
        elif ke and not thr_t:
            res.violations.append(Viol("error_under_wrong_key", f"a consumer of the map's ERROR key set ticked at {ke[:8]} although no child threw", dict(feats, where="error_key_set")))
        bad_seen = {}
        for d in tr.evals_of("r_err", "r"):
            i = d["ins"][0]
            if i.get("m") and isinstance(i.get("dv"), dict):
                for k, dv in i["dv"].get("modified", []):
                    bad_seen.setdefault(k, []).append(d["t"])
        wrong_keys = sorted(set(bad_seen) - set(bad))
        if wrong_keys:
            res.violations.append(Viol("error_under_wrong_key", f"errors reported under keys {wrong_keys} whose children never threw (failing keys {bad})", feats))
        thr_by_key = {}
        for d in tr.user_evals:
            if d["x"].get("throw") and d["label"] == "F.f":
                thr_by_key.setdefault(d["gid"], []).append(d["t"])
        n_thrown = sum(len(v) for v in thr_by_key.values())
        n_err = sum(len(v) for v in bad_seen.values())
        if n_thrown != n_err:
            res.violations.append(Viol("error_ticks_wrong", f"{n_thrown} exceptions were thrown by map children but {n_err} keyed error ticks were published ({bad_seen})", feats))
        # good keys identical to the fault-free run
        def per_key(t_):
            out = {}
            for d in t_.evals_of("r_m", "r"):
                i = d["ins"][0]
                if i.get("m") and isinstance(i.get("dv"), dict):
                    for k, v in i["dv"].get("modified", []):
                        out.setdefault(k, []).append((d["t"], v))
            return out
        g, g0 = per_key(tr), per_key(tr0)
        for k in live:
            if k not in bad and g.get(k) != g0.get(k):
                res.violations.append(Viol("independent_stream_disturbed", f"key {k} (never failing) has stream {g.get(k, [])[:6]} but {g0.get(k, [])[:6]} in the fault-free run", dict(feats, where="map_key")))
                break
        # every child (failing or not) is evaluated at the same times as in the fault-free run: a failing child is
        # evaluated normally again, its timers survive its errors
        def child_evals(t_):
            out = {}
            for d in t_.user_evals:
                if d["label"] == "F.f":
                    out.setdefault(d["gid"], []).append(d["t"])
            return out
        ce, ce0 = child_evals(tr), child_evals(tr0)
        for gid in sorted(ce0):
            if ce.get(gid) != ce0[gid]:
                res.violations.append(Viol("failing_node_not_reevaluated", f"map child {gid} was evaluated at {ce.get(gid, [])[:14]}, in the fault-free run at {ce0[gid][:14]}", dict(feats, where="map_child")))
                break
        throw_eval_times = sorted({t for v in thr_by_key.values() for t in v})
    ind_times = {t for t, _ in a}
    later_ok = any(t not in throw_eval_times for t in [d["t"] for d in tr.user_evals if d["label"] in ("T", "G.T", "F.f")] if throw_eval_times and t > throw_eval_times[0])
    res.nontrivial = bool(throw_eval_times) and any(t in ind_times for t in throw_eval_times) and later_ok
    res.labels.append("shape_" + case["shape"])
    if throw_eval_times:
        res.labels.append("throws_fired")
        if any(b2 == a2 + 1 for a2, b2 in zip(throw_eval_times, throw_eval_times[1:])):
            res.labels.append("consecutive_throws")
    if case["self_sched"]:
        res.labels.append("self_scheduling_thrower")
    if case["second"]:
        res.labels.append("two_failing_nodes")
    if case.get("multiline") and throw_eval_times:
        res.labels.append("multi_line_message")
    if case.get("sibling_timer"):
        res.labels.append("timer_ranked_after_thrower")
    if case.get("pre") and case["shape"] != "node":
        res.labels.append("node_ranked_before_thrower_in_child")
    res.summary = {"throw_times": throw_eval_times[:12], "shape": case["shape"]}
    return res
