"""C20 — recording a time-series and replaying it reproduces the same ticks."""
from __future__ import annotations

from hypothesis import strategies as st

from hgv import tsmodel as tm
from hgv.runner import Result, Viol
from hgv.trace import Trace
from hgv.worker import HarnessError
from props.c05 import norm_delta, norm_value, tree_value, tuple_schema, first_erase_rewrite

ID = "C20"
RULE = ("Recursive schemas (TS/SIGNAL/TSS/TSD/TSL/TSB/TSW over int/bool/str, depth <= 3) with generated tick histories (gaps, removals, "
        "child-only ticks, cancelling mutations giving empty structural deltas). Run 1: writer -> record(buf) with a recorder and a "
        "capture_delta->apply_delta mirror beside it; run 2 (same worker request, recorded Values handed over natively): replay(buf) -> "
        "record(buf2) with the same recorder. Compared: both recordings element-wise, the recorders' tick times / deltas / values, the "
        "mirror's value and re-captured delta per tick. Non-trivial = nesting >= 2 with a removal delta and a child-only tick. "
        "Distinct = canonical JSON of (schema, script).")
ASSUMPTIONS = ["same-cycle erase + re-write of one dictionary key is not generated (known finding F6, owned by C05)",
               "payloads of never-written children are not compared"]


def examples(tier):
    return 5000 if tier == "quick" else 80000


def budget_s(tier):
    return 75 if tier == "quick" else 600


@st.composite
def case(draw, tier):
    big = tier == "thorough"
    kind = draw(st.integers(0, 9))
    schema = ("SIGNAL",) if kind == 0 else ("TS", draw(st.sampled_from(["int", "str", "bool"]))) if kind == 1 else draw(tm.schemas(3))
    start = 0  # the TESTING record/replay backend indexes its dense buffer from MIN_ST (eval_node usage)
    horizon = draw(st.integers(3, 30 if big else 12))
    opts = {"cancel": True, "multi": True, "no_rewrite": True, "inval": False, "keys": draw(st.sampled_from([4, 8])), "grow": draw(st.booleans()), "whole": True}
    if kind == 2:
        # an UNSIZED list grown by writes at arbitrary indices (holes stay invalid), flat or as a dictionary element
        inner = ("TSL", ("TS", "int"), 0)
        nested = draw(st.booleans())
        schema = ("TSD", "int", inner) if nested else inner
        script, top = [], 0
        from hgv.gen import time_set
        for t in draw(time_set(start, start + horizon - 1, 1, 10 if big else 6)):
            ops = []
            for _ in range(draw(st.integers(1, 3))):
                i = draw(st.integers(0, min(top + 3, 12)))
                top = max(top, i)
                w = {"k": "i", "i": i, "op": {"k": "set", "v": draw(st.integers(-3, 30))}}
                ops.append({"k": "D", "ops": [["at", draw(st.integers(0, 2)), w]]} if nested else w)
            script.append([t, ops])
        return {"schema": schema, "script": script, "start": start, "end": start + horizon, "raw_copy": draw(st.integers(0, 2)) == 0}
    script = draw(tm.history(schema, start, horizon, opts, max_cycles=12 if big else 7))
    return {"schema": schema, "script": script, "start": start, "end": start + horizon, "raw_copy": draw(st.integers(0, 2)) == 0}


def strategy(tier):
    return case(tier)


def rec_stream(tr, label, schema):
    """[(t, delta, value)] of observable ticks: a tick whose structural delta is empty and which leaves the value unchanged
    (mutations that cancelled within the cycle) is documented as not externally observable (ts_delta.h,
    delta_is_observable) and is therefore optional on both sides."""
    out = []
    prev = None
    for d in tr.evals_of(label, "r"):
        i = d["ins"][0]
        if i.get("m"):
            if schema[0] == "SIGNAL":
                out.append((d["t"], None, None))
                continue
            delta = drop_empty(norm_delta_safe(i.get("cd"), schema), schema)
            val = norm_value(tree_value(i, schema), schema)
            if delta is None and only_validated_empties(prev, val):
                continue   # also: an empty first tick that merely validates an empty collection (confounded by F8)
            prev = val
            out.append((d["t"], delta, val))
    return out


def drop_empty(d, schema):
    """remove dictionary 'modified' entries whose child delta is empty (values are compared separately)."""
    if d is None or isinstance(d, tuple):
        return d
    k = schema[0]
    if k == "TSD":
        mod = [[key, drop_empty(x, schema[2])] for key, x in d["modified"]]
        mod = [m for m in mod if m[1] is not None]
        return None if not mod and not d["removed"] else {"removed": d["removed"], "modified": mod}
    if k == "TSL":
        xs = [[i, drop_empty(x, schema[1])] for i, x in d]
        xs = [x for x in xs if x[1] is not None]
        return xs or None
    if k == "TSB":
        xs = {n: drop_empty(d.get(n), cs) for n, cs in schema[1]}
        return xs if any(v is not None for v in xs.values()) else None
    return d


def only_validated_empties(a, b):
    """True when b equals a except that places where a holds nothing (None) hold an empty collection in b."""
    if a == b:
        return True
    if a is None:
        if b == [] or b is None:
            return True
        if isinstance(b, dict):
            return all(only_validated_empties(None, v) for v in b.values())
        if isinstance(b, list):
            return all(only_validated_empties(None, v) for v in b)
        return False
    if isinstance(a, dict) and isinstance(b, dict) and set(a) == set(b):
        return all(only_validated_empties(a[k], b[k]) for k in a)
    if isinstance(a, list) and isinstance(b, list) and len(a) == len(b):
        return all(only_validated_empties(x, y) for x, y in zip(a, b))
    return False


def norm_delta_safe(d, schema):
    try:
        return norm_delta(d, schema)
    except Exception:
        return ("malformed", str(d)[:200])


def norm_recorded(lst, schema):
    if schema[0] == "SIGNAL":
        return [None if d is None else True for d in lst]
    out = [None if d is None else drop_empty(norm_delta_safe(d, schema), schema) for d in lst]
    while out and out[-1] is None:
        out.pop()      # the dense buffer's length depends on the last recorded cycle only
    return out


def check(case, ctx) -> Result:
    res = Result()
    schema = tuple_schema(case["schema"])
    ss = tm.schema_str(schema)
    base = {"start": case["start"], "end": case["end"]}
    prog1 = dict(base, record_keys=["buf"], stmts=[
        {"op": "rr_config"},
        {"id": "w", "op": "src", "schema": ss, "script": case["script"]},
        {"id": "rec", "op": "node", "ins": ["w"], "deep": True, "valid": []},
        {"id": "mir", "op": "node", "ins": ["w"], "out": ss, "mirror": 0, "valid": [], "log_inputs": False},
        {"id": "rec2", "op": "node", "ins": ["mir"], "deep": True, "valid": []},
        {"id": "R", "op": "op", "name": "record", "args": [{"ts": "w"}, {"sc": "buf", "t": "str"}], "has_out": False},
    ])
    prog2 = dict(base, record_keys=["buf2"], stmts=[
        {"op": "rr_config"},
        {"id": "w", "op": "op", "name": "replay", "args": [{"sc": "buf", "t": "str"}], "has_out": True, "out": ss},
        {"id": "rec", "op": "node", "ins": ["w"], "deep": True, "valid": []},
        {"id": "R", "op": "op", "name": "record", "args": [{"ts": "w"}, {"sc": "buf2", "t": "str"}], "has_out": False},
    ])
    # the recording reaches the replay either as a list of deltas (get_recorded_deltas -> set_replay_deltas) or as a copy of the
    # whole buffer Value put into the second builder's global state
    raw = bool(case.get("raw_copy"))
    if raw:
        prog2["raw_seed"] = {"buf": "buf"}
        res.labels.append("buffer_copied_as_a_value")
    resp = ctx.request({"op": "rr", "prog1": prog1, "prog2": prog2, "map": {} if raw else {"buf": "buf"}})
    if resp.get("crash"):
        res.violations.append(Viol("engine_crash", f"worker died: {resp.get('signal')} {resp.get('stderr', '')[-500:]}"))
        return res
    r1, r2 = resp["runs"]
    for i, r in enumerate((r1, r2)):
        if r is None or not r.get("built"):
            err = (r or {}).get("error") or {}
            if str(err.get("what", "")).startswith("harness:"):
                raise HarnessError(err["what"])
            res.violations.append(Viol("record_replay_rejected", f"run {i + 1} could not be wired for schema {ss}: {err}", {"phase": str(err.get("phase")), "kind": schema[0]}))
            return res
        if r.get("error"):
            res.violations.append(Viol("run_failed", f"run {i + 1} threw for schema {ss}: {r['error']}", {"run": i + 1, "what": str(r["error"].get("what"))[:80]}))
            return res
    t1, t2 = Trace(r1["trace"]), Trace(r2["trace"])
    s1 = rec_stream(t1, "rec", schema)
    s2 = rec_stream(t2, "rec", schema)
    sm = rec_stream(t1, "rec2", schema)
    feats = {"kind": schema[0], "has_window": "TSW" in tm.schema_kinds(schema)}
    # (a) replay reproduces the same cycles, deltas and values
    if [x[0] for x in s1] != [x[0] for x in s2]:
        res.violations.append(Viol("replay_tick_times_differ", f"original ticks at {[x[0] for x in s1][:14]}, replayed ticks at {[x[0] for x in s2][:14]}", feats))
    else:
        for a, b in zip(s1, s2):
            if a[1] != b[1]:
                res.violations.append(Viol("replay_delta_differs", f"t={a[0]}: original delta {a[1]}, replayed delta {b[1]}", feats))
                break
            if a[2] != b[2]:
                res.violations.append(Viol("replay_value_differs", f"t={a[0]}: original value {a[2]}, replayed value {b[2]}", dict(feats, only_validated_empties=only_validated_empties(a[2], b[2]))))
                break
    if schema[0] in ("TSS", "TSD"):
        # a first tick that carries no element still makes the recorded collection valid (and empty) in its cycle: the replay
        # (and the copy fed by apply_delta) must become valid in that same cycle, not when the first element arrives
        def first_valid(tr, label):
            return next((d["t"] for d in tr.evals_of(label, "r") if d["ins"][0].get("v")), None)
        fv = first_valid(t1, "rec")
        if fv is not None and not res.violations:
            for what, got in (("replayed", first_valid(t2, "rec")), ("apply_delta copy", first_valid(t1, "rec2"))):
                if got != fv:
                    res.violations.append(Viol("first_valid_time_differs", f"the original {schema[0]} became valid at t={fv} (value {next((x[2] for x in s1 if x[0] >= fv), None)}), the {what} one at t={got}", dict(feats, what=what)))
                    break
        if fv is not None and not any(x[0] == fv for x in s1):
            res.labels.append("first_tick_validates_empty_collection")
    b1 = norm_recorded((r1.get("recorded") or {}).get("buf") or [], schema)
    b2 = norm_recorded((r2.get("recorded") or {}).get("buf2") or [], schema)
    if isinstance((r1.get("recorded") or {}).get("buf"), dict) or isinstance((r2.get("recorded") or {}).get("buf2"), dict):
        res.violations.append(Viol("recording_unreadable", f"recorded buffers: {str(r1.get('recorded'))[:200]} / {str(r2.get('recorded'))[:200]}", feats))
    elif b1 != b2:
        k = next((i for i, (x, y) in enumerate(zip(b1, b2)) if x != y), min(len(b1), len(b2)))
        res.violations.append(Viol("recordings_differ", f"recording of the replay differs from the original at entry {k}: {b1[k:k + 2]} vs {b2[k:k + 2]} (lengths {len(b1)}/{len(b2)})", feats))
    # (b) apply(capture(x)) onto a copy tracks the source; capturing again from the copy yields the same delta
    if [x[0] for x in s1] != [x[0] for x in sm]:
        res.violations.append(Viol("mirror_tick_times_differ", f"source ticks at {[x[0] for x in s1][:14]}, mirror (apply_delta of capture_delta) ticks at {[x[0] for x in sm][:14]}", feats))
    else:
        for a, b in zip(s1, sm):
            if a[2] != b[2]:
                res.violations.append(Viol("apply_capture_value_differs", f"t={a[0]}: source value {a[2]}, copy after apply_delta(capture_delta) {b[2]}", dict(feats, only_validated_empties=only_validated_empties(a[2], b[2]))))
                break
            if a[1] != b[1]:
                res.violations.append(Viol("recapture_differs", f"t={a[0]}: captured delta {a[1]}, re-captured from the copy {b[1]}", feats))
                break
    removal = any('"rem"' in str_ or '"erase"' in str_ or '"clear"' in str_ for str_ in [__import__("json").dumps(case["script"])])
    depth = tm.schema_depth(schema)
    res.nontrivial = depth >= 2 and removal and len(s1) >= 2
    res.labels.append("kind_" + schema[0])
    if removal:
        res.labels.append("removal")
    if depth >= 2:
        res.labels.append("nested")
    if any(x[1] is None for x in s1):
        res.labels.append("empty_structural_delta")
    res.summary = {"schema": ss, "ticks": [x[0] for x in s1][:20]}
    return res
