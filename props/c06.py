"""C06 — behaviour depends on the dataflow, not on wiring order or node sharing."""
from __future__ import annotations

import copy

from hypothesis import strategies as st

from hgv import gen
from hgv.runner import Result, Viol
from hgv.trace import Trace
from hgv.worker import HarnessError

ID = "C06"
RULE = ("A random dataflow program P (sources, stateless/stateful compute nodes, structural sources, inlined/nested sub-programs, "
        "delayed bindings) is wired in 2-3 random admissible statement orders; additionally one compute statement is duplicated "
        "(same definition, same inputs, same configuration scalar: eligible for sharing) and near-duplicated (one scalar, one input, "
        "one input tagged passive, or the function changed), each once as intern-eligible and once forced unique, and one sink is "
        "duplicated; in a third of the cases two identical nodes read two equal-typed projections of one bundle/list argument inside a "
        "sub-program that is applied inlined and nested, in both twin orders. Non-trivial = "
        "the program has >= 2 statements whose relative order differs between the permutations AND a near-colliding pair. "
        "Distinct = canonical JSON of the case.")
ASSUMPTIONS = ["configuration of harness nodes is carried in one string scalar, so scalar *type* collisions (1 vs true) are not exercised"]


def examples(tier):
    return 2500 if tier == "quick" else 30000


def budget_s(tier):
    return 70 if tier == "quick" else 600


@st.composite
def case(draw, tier):
    big = tier == "thorough"
    start = draw(st.sampled_from([0, 0, 3]))
    horizon = draw(st.integers(3, 30 if big else 14))
    prog = draw(gen.dataflow(start, horizon, max_nodes=12 if big else 6, max_depth=2, big=big))
    stmts = prog["stmts"]
    perms = [draw(st.permutations(list(range(len(stmts))))) for _ in range(draw(st.integers(2, 3)))]
    nodes = [s for s in stmts if s["op"] == "node" and "out" in s]
    dup = None
    if nodes:
        x = draw(st.sampled_from(nodes))
        mode = draw(st.sampled_from(["bias", "coef", "fn", "input", "passive"]))
        dup = {"of": x["id"], "near": mode}
        if mode == "passive":
            # the twin reads one input passively (wiring-time tag): same definition, same sources, different activation
            plain = [k for k, r in enumerate(x["ins"]) if isinstance(r, str)]
            if len(plain) >= 2 and not x.get("active"):      # (another plain input stays active: the engine refuses a node with none)
                dup["slot"] = draw(st.sampled_from(plain))
            else:
                dup["near"] = mode = "bias"
        if mode == "input":
            slot = draw(st.integers(0, len(x["ins"]) - 1))
            others = [s["id"] for s in stmts if (s["op"] == "src" or (s["op"] == "node" and "out" in s)) and s["id"] != x["ins"][slot] and s["id"] != x["id"]]
            # the replacement must not depend on x itself (keep the program acyclic): only statements x does not feed
            feeds = {x["id"]}
            changed = True
            while changed:
                changed = False
                for s in stmts:
                    if s.get("id") not in feeds and any(r in feeds for r in gen.refs_of(s)):
                        feeds.add(s.get("id"))
                        changed = True
            others = [o for o in others if o not in feeds]
            if others:
                dup["other"] = draw(st.sampled_from(others))
                dup["slot"] = slot
            else:
                dup["near"] = "bias"
    # projection twins: two nodes with the same definition and configuration that read two equal-typed projections of ONE
    # argument (fields of a bundle / elements of a list) inside a sub-program - they differ in an input and must stay distinct
    twins = None
    if draw(st.integers(0, 2)) == 0:
        shape = draw(st.sampled_from(["TSB", "TSL"]))
        n = draw(st.integers(2, 3))
        i, j = draw(st.lists(st.integers(0, n - 1), min_size=2, max_size=2, unique=True))
        times = draw(gen.time_set(start, start + horizon - 1, 1, 6))
        script = []
        for t in times:
            idx = draw(st.lists(st.integers(0, n - 1), min_size=1, max_size=n, unique=True))
            script.append([t, [{"k": "i", "i": k, "op": {"k": "set", "v": draw(st.integers(1, 40))}} for k in idx]])
        twins = {"shape": shape, "n": n, "i": i, "j": j, "script": script, "fn": draw(st.sampled_from(["sum", "acc", "count"])),
                 "bias": draw(st.integers(0, 3)), "extra_arg": draw(st.booleans())}
    # resolved-type twins: one generic library implementation (nothing[O]) resolved to several output types with
    # identical inputs and scalars - different resolved types must stay different nodes
    rtypes = draw(st.lists(st.sampled_from(["TS[int]", "TS[bool]", "TS[str]", "TSS[int]", "TSD[int,TS[int]]"]), min_size=2, max_size=4)) \
        if draw(st.integers(0, 3)) == 0 else None
    # output-less higher-order / nested nodes are sinks too: the same statement written twice stays two nodes
    hsink = draw(st.sampled_from([None, None, None, "map_", "nested", "switch_"]))
    return {"prog": prog, "perms": perms, "dup": dup, "twins": twins, "rtypes": rtypes, "hsink": hsink}


def strategy(tier):
    return case(tier)


def _streams(tr, labels=None):
    """label -> [(t, [input values...], out)] for every harness node evaluation in the root graph and children."""
    out = {}
    for d in tr.user_evals:
        if labels is not None and d["label"] not in labels:
            continue
        ins = None
        if d["ins"] is not None:
            ins = [(i.get("v"), i.get("m"), i.get("val"), i.get("cd")) if i else None for i in d["ins"]]
        out.setdefault(d["label"], []).append((d["t"], ins, d["x"].get("out")))
    return out


def _run(ctx, prog, res, what):
    resp = ctx.run(prog)
    if resp.get("crash"):
        res.violations.append(Viol("engine_crash", f"{what}: worker died {resp.get('signal')} {resp.get('stderr', '')[-300:]}"))
        return None
    if not resp.get("built"):
        res.violations.append(Viol("valid_program_rejected", f"{what}: {resp.get('error')}"))
        return None
    if resp.get("error"):
        res.violations.append(Viol("run_failed", f"{what}: {resp['error']}"))
        return None
    return resp


def _variant(prog, dup, near, uniq):
    p = copy.deepcopy(prog)
    x = next(s for s in p["stmts"] if s.get("id") == dup["of"])
    x2 = copy.deepcopy(x)
    x2["id"] = "XDUP"
    if near:
        m = dup["near"]
        if m == "bias":
            x2["bias"] = x2.get("bias", 0) + 1
        elif m == "coef":
            x2["coef"] = list(x2.get("coef", [1]))
            x2["coef"][0] += 1
        elif m == "fn":
            x2["fn"] = "acc" if x2.get("fn") == "sum" else "sum"
        elif m == "passive":
            x2["ins"] = list(x2["ins"])
            x2["ins"][dup["slot"]] = {"r": x2["ins"][dup["slot"]], "passive": True}
        else:
            x2["ins"] = list(x2["ins"])
            x2["ins"][dup["slot"]] = dup["other"]
    x["uniq"] = uniq
    x2["uniq"] = uniq
    p["stmts"] = list(p["stmts"]) + [x2,
                                     {"id": "RX", "op": "node", "ins": [dup["of"]]},
                                     {"id": "RX2", "op": "node", "ins": ["XDUP"]},
                                     # identical sinks: same definition, same input, same configuration
                                     {"id": "SK1", "op": "node", "ins": ["XDUP"], "uniq": uniq, "bias": 7},
                                     {"id": "SK2", "op": "node", "ins": ["XDUP"], "uniq": uniq, "bias": 7}]
    p["stmts"] = gen.topo_order(p["stmts"], list(range(len(p["stmts"]))))
    return p


def _twins_prog(prog, tw, nested, swap, uniq):
    """the sub-program G(p[, q]) = 1000 * f(p[i]) + f(p[j]) applied inlined or as a nested graph, twins wired in either order"""
    schema = ("TSB[" + ",".join(f"f{k}:TS[int]" for k in range(tw["n"])) + "]") if tw["shape"] == "TSB" else f"TSL[TS[int],{tw['n']}]"
    def twin(name, k):
        return {"id": name, "op": "node", "ins": [{"arg": 0, "path": [k]}], "out": "TS[int]", "fn": tw["fn"], "bias": tw["bias"], "uniq": uniq,
                "log_inputs": False}
    a, b = twin("ta", tw["i"]), twin("tb", tw["j"])
    body = ([b, a] if swap else [a, b]) + [{"id": "mix", "op": "node", "ins": ["ta", "tb"], "out": "TS[int]", "fn": "sum", "coef": [1000, 1],
                                            "log_inputs": False}]
    params = [schema] + (["TS[int]"] if tw["extra_arg"] else [])
    sub = {"params": params, "out": "TS[int]", "stmts": body, "ret": "mix"}
    stmts = [{"id": "TWP", "op": "src", "schema": schema, "script": tw["script"]}]
    ins = ["TWP"]
    if tw["extra_arg"]:
        stmts.append({"id": "TWQ", "op": "src", "schema": "TS[int]", "script": [[prog["start"], [{"k": "set", "v": 5}]]]})
        ins.append("TWQ")
    stmts += [{"id": "TWG", "op": "nested" if nested else "inline", "sub": "GT", "ins": ins}, {"id": "TWR", "op": "node", "ins": ["TWG"]}]
    return {"start": prog["start"], "end": prog["end"], "stmts": stmts, "subs": {"GT": sub}}


def check(case, ctx) -> Result:
    res = Result()
    prog = case["prog"]
    stmts = prog["stmts"]
    # ---- (1) permutations
    base = None
    orders = []
    for k, pr in enumerate(case["perms"]):
        p = dict(prog, stmts=gen.topo_order(stmts, pr))
        orders.append([s.get("id") for s in p["stmts"]])
        resp = _run(ctx, p, res, f"permutation {k}")
        if resp is None:
            return res
        tr = Trace(resp["trace"])
        s = _streams(tr)
        n_nodes = len(resp["graph"]["nodes"])
        cyc = [c.t for c in tr.root_cycles()]
        if base is None:
            base = (s, n_nodes, cyc)
            continue
        if cyc != base[2]:
            res.violations.append(Viol("order_changes_cycles", f"statement order {orders[k]} gives root cycles {cyc[:20]}, order {orders[0]} gives {base[2][:20]}"))
        if n_nodes != base[1]:
            res.violations.append(Viol("order_changes_node_count", f"{n_nodes} nodes vs {base[1]} for another statement order"))
        for lbl in sorted(set(s) | set(base[0])):
            if s.get(lbl) != base[0].get(lbl):
                a, b = s.get(lbl, []), base[0].get(lbl, [])
                diff = next((i for i, (u, v) in enumerate(zip(a, b)) if u != v), min(len(a), len(b)))
                res.violations.append(Viol("order_changes_stream", f"node {lbl}: evaluation #{diff} differs between statement orders: {a[diff:diff + 1]} vs {b[diff:diff + 1]} (lens {len(a)}/{len(b)})"))
                break
    moved = sum(1 for a in range(len(orders[0])) for o in orders[1:] if o[a] != orders[0][a])
    if moved >= 2:
        res.labels.append("reordered")
    # ---- (2) duplicates and near-duplicates
    dup = case.get("dup")
    near_ok = False
    if dup is not None:
        for near in (False, True):
            ra = _run(ctx, _variant(prog, dup, near, False), res, f"dup(near={near}) intern-eligible")
            rb = _run(ctx, _variant(prog, dup, near, True), res, f"dup(near={near}) forced unique")
            if ra is None or rb is None:
                return res
            ta, tb = Trace(ra["trace"]), Trace(rb["trace"])
            sa = _streams(ta, {"RX", "RX2", "SK1", "SK2"})
            sb = _streams(tb, {"RX", "RX2", "SK1", "SK2"})
            for lbl in ("RX", "RX2", "SK1", "SK2"):
                if sa.get(lbl) != sb.get(lbl):
                    res.violations.append(Viol("sharing_changes_stream" if not near else "near_duplicate_merged",
                                               f"recorder {lbl} (near={near}, mode={dup['near']}): intern-eligible wiring gives {str(sa.get(lbl))[:300]} but forced-unique wiring gives {str(sb.get(lbl))[:300]}",
                                               {"near": near}))
                    break
            na, nb = len(ra["graph"]["nodes"]), len(rb["graph"]["nodes"])
            if near:
                near_ok = True
                if na != nb:
                    res.violations.append(Viol("near_duplicate_merged", f"nodes differing in {dup['near']} were merged: {na} nodes instead of {nb}", {"near": True}))
            else:
                if na > nb:
                    res.violations.append(Viol("node_count", f"intern-eligible wiring has more nodes ({na}) than the forced-unique one ({nb})"))
                # sinks never merge: both SK1 and SK2 exist as separate nodes and both run
                if na < nb - 1:
                    res.violations.append(Viol("sink_merged", f"identical sinks were merged: {na} nodes, expected at least {nb - 1}"))
                res.labels.append("shared" if na == nb - 1 else "not_shared")
            for lbl in ("SK1", "SK2"):
                if lbl not in {n["l"] for n in ra["graph"]["nodes"]}:
                    res.violations.append(Viol("sink_merged", f"sink {lbl} is missing from the compiled graph"))
    # ---- (3) projection twins inside a sub-program: inlined / nested x twin order x intern-eligible / forced unique
    tw = case.get("twins")
    if tw is not None and not res.violations:
        ref = None
        for nested in (False, True):
            for swap in (False, True):
                for uniq in (False, True):
                    what = f"twins({'nested' if nested else 'inlined'}, {'b first' if swap else 'a first'}, {'unique' if uniq else 'intern-eligible'})"
                    r = _run(ctx, _twins_prog(prog, tw, nested, swap, uniq), res, what)
                    if r is None:
                        return res
                    stream = [(t, v) for t, v, _ in Trace(r["trace"]).stream("TWR")]
                    if ref is None:
                        ref = (what, stream)
                    elif stream != ref[1]:
                        k = next((x for x, (u, v) in enumerate(zip(stream, ref[1])) if u != v), min(len(stream), len(ref[1])))
                        res.violations.append(Viol("projection_twins_merged", f"G(p) = 1000*f(p[{tw['i']}]) + f(p[{tw['j']}]) over {tw['shape']}: {what} gives {stream[k:k + 3]} at tick #{k} but {ref[0]} gives {ref[1][k:k + 3]}",
                                                   {"nested": nested}))
                        break
                if res.violations:
                    break
            if res.violations:
                break
        res.labels.append("projection_twins")
    # ---- (4) one generic implementation resolved to several output types
    rt = case.get("rtypes")
    if rt and not res.violations:
        for order in (list(range(len(rt))), list(reversed(range(len(rt))))):
            stmts_ = [{"id": "TS0", "op": "src", "schema": "TS[int]", "script": [[prog["start"], [{"k": "set", "v": 1}]]]}]
            for i in order:
                stmts_.append({"id": f"N{i}", "op": "op", "name": "nothing", "args": [], "has_out": True, "out": rt[i]})
            for i in order:
                stmts_.append({"id": f"RN{i}", "op": "node", "ins": [f"N{i}", "TS0"], "valid": []})
            r = _run(ctx, {"start": prog["start"], "end": prog["end"], "stmts": stmts_}, res, f"resolved-type twins {rt} order {order}")
            if r is None:
                return res
            n_nothing = sum(1 for n in r["graph"]["nodes"] if n.get("n") == "nothing")
            if not (len(set(rt)) <= n_nothing <= len(rt)):
                res.violations.append(Viol("resolved_type_twins_merged", f"nothing[O] wired for O = {[rt[i] for i in order]}: the compiled graph has {n_nothing} such node(s) for {len(set(rt))} distinct resolved types", {"order": order != sorted(order)}))
                break
        res.labels.append("resolved_type_twins")
    # ---- (5) output-less map_ / switch_ / nested statements written twice with the same function value and inputs
    hs = case.get("hsink")
    if hs and not res.violations:
        FS = {"params": ["TS[int]"], "names": ["x"], "stmts": [{"id": "k", "op": "node", "ins": [{"arg": 0}], "log_inputs": False}]}
        FK = {"params": ["TS[int]", "TS[int]"], "names": ["key", "x"], "stmts": [{"id": "k", "op": "node", "ins": [{"arg": 1}], "log_inputs": False}]}
        T0 = prog["start"]
        base = [{"id": "HX", "op": "src", "schema": "TS[int]", "script": [[T0, [{"k": "set", "v": 1}]], [T0 + 1, [{"k": "set", "v": 2}]]]},
                {"id": "HD", "op": "src", "schema": "TSD[int,TS[int]]", "script": [[T0, [{"k": "D", "ops": [["set", 1, 5], ["set", 2, 6]]}]], [T0 + 1, [{"k": "D", "ops": [["set", 1, 7]]}]]]},
                {"id": "HK", "op": "src", "schema": "TS[int]", "script": [[T0, [{"k": "set", "v": 0}]]]}]
        def stmt(i):
            if hs == "map_":
                return {"id": f"HS{i}", "op": "op", "name": "map_", "args": [{"fn": "FS"}, {"ts": "HD"}], "has_out": False}
            if hs == "switch_":
                return {"id": f"HS{i}", "op": "op", "name": "switch_", "args": [{"ts": "HK"}, {"cases": [[0, "FS"]], "key_t": "int"}, {"ts": "HX"}], "has_out": False}
            return {"id": f"HS{i}", "op": "nested", "sub": "FS", "ins": ["HX"]}
        counts = []
        for n_copies in (1, 2):
            r = _run(ctx, {"start": T0, "end": T0 + 3, "stmts": base + [stmt(i) for i in range(n_copies)], "subs": {"FS": FS, "FK": FK}}, res, f"{hs} sink statement x{n_copies}")
            if r is None:
                return res
            counts.append((len(r["graph"]["nodes"]), sum(1 for e in r["trace"] if e[0] == "ev" and e[3] == "FS.k")))
        (n1, e1), (n2, e2) = counts
        if n2 != n1 + 1 or e2 != 2 * e1 or e1 == 0:
            res.violations.append(Viol("sink_merged", f"an output-less {hs} statement written twice: {n2} nodes / {e2} child evaluations, once: {n1} nodes / {e1} evaluations (expected one more node and twice the evaluations)", {"higher_order_sink": hs}))
        res.labels.append("higher_order_sink_twins")
    # ---- (6) switch_ calls that differ only in which source goes to which keyword
    if case.get("hsink") and not res.violations:
        BK = {"params": ["TS[int]", "TS[int]"], "names": ["a", "b"], "out": "TS[int]", "ret": "f",
              "stmts": [{"id": "f", "op": "node", "ins": [{"arg": 0}, {"arg": 1}], "out": "TS[int]", "fn": "sum", "coef": [1000, 1], "log_inputs": False}]}
        T0 = prog["start"]
        def sw(i, an, bn):
            return {"id": f"KW{i}", "op": "op", "name": "switch_", "args": [{"ts": "KK"}, {"cases": [[0, "BK"]], "key_t": "int"}, {"ts": "KX", "name": an}, {"ts": "KY", "name": bn}], "has_out": True}
        streams = {}
        for order in ((1, 2), (2, 1)):
            two = {1: sw(1, "a", "b"), 2: sw(2, "b", "a")}
            stmts_ = [{"id": "KK", "op": "src", "schema": "TS[int]", "script": [[T0, [{"k": "set", "v": 0}]]]},
                      {"id": "KX", "op": "src", "schema": "TS[int]", "script": [[T0, [{"k": "set", "v": 1}]], [T0 + 1, [{"k": "set", "v": 2}]]]},
                      {"id": "KY", "op": "src", "schema": "TS[int]", "script": [[T0, [{"k": "set", "v": 5}]], [T0 + 2, [{"k": "set", "v": 6}]]]},
                      two[order[0]], two[order[1]], {"id": "KR1", "op": "node", "ins": ["KW1"]}, {"id": "KR2", "op": "node", "ins": ["KW2"]}]
            r = _run(ctx, {"start": T0, "end": T0 + 4, "stmts": stmts_, "subs": {"BK": BK}}, res, f"keyword twins order {order}")
            if r is None:
                return res
            tr_ = Trace(r["trace"])
            streams[order] = ([(t, v) for t, v, _ in tr_.stream("KR1")], [(t, v) for t, v, _ in tr_.stream("KR2")])
        exp1 = [(T0, 1005), (T0 + 1, 2005), (T0 + 2, 2006)]
        exp2 = [(T0, 5001), (T0 + 1, 5002), (T0 + 2, 6002)]
        for order, (g1, g2) in streams.items():
            if g1 != exp1 or g2 != exp2:
                res.violations.append(Viol("keyword_twins_merged", f"switch_(k, cases, a=x, b=y) and switch_(k, cases, b=x, a=y) wired in order {order}: streams {g1[:3]} / {g2[:3]}, expected {exp1} / {exp2}", {}))
                break
        res.labels.append("keyword_twins")
    res.nontrivial = moved >= 2 and near_ok
    res.summary = {"orders": orders[:2], "dup": dup, "nodes": base[1] if base else None}
    return res
