// Build shim (toolchain gap, see DESIGN.md §2): Howard Hinnant's date/tz.h is not on disk, but Arrow vendors it and
// libarrow.so exports its symbols.  Alias the namespace.
#pragma once
#include <arrow/vendored/datetime/tz.h>
namespace date = arrow_vendored::date;
