// Build shim (toolchain gap): libstdc++ 12 lacks operator<< for chrono::sys_time / year_month_day (P0355 I/O).
// Forward to Arrow's vendored date implementation.  -include'd only for types/temporal.cpp.
#pragma once
#include <chrono>
#include <ostream>
#include <arrow/vendored/datetime/date.h>
namespace std::chrono {
template <class C, class T, class D>
inline basic_ostream<C, T> &operator<<(basic_ostream<C, T> &os, const sys_time<D> &tp) { return arrow_vendored::date::operator<<(os, tp); }
template <class C, class T>
inline basic_ostream<C, T> &operator<<(basic_ostream<C, T> &os, const year_month_day &ymd) {
    return arrow_vendored::date::operator<<(os, arrow_vendored::date::year_month_day{arrow_vendored::date::year{int(ymd.year())}, arrow_vendored::date::month{unsigned(ymd.month())}, arrow_vendored::date::day{unsigned(ymd.day())}});
}
}
