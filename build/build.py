#!/usr/bin/env python3
"""Build driver: compiles /repo's *working tree* (C++23 runtime + wiring + stdlib TUs listed in
src/CMakeLists.txt) with g++ into .build/<variant>/libhgraph_tree.so and links the native harness
hgv_worker against it.  Incremental by content hash of every file named in the TU's .d file.

Exit codes: 0 ok, 2 build error (never a VIOLATION).
"""
from __future__ import annotations

import concurrent.futures as cf
import fcntl
import hashlib
import json
import os
import re
import shutil
import subprocess
import sys
import time
from pathlib import Path

VERIF = Path(__file__).resolve().parent.parent
REPO = Path(os.environ.get("VERIF_REPO", "/repo"))
SP = Path("/venv/lib/python3.12/site-packages")
SIMDJSON = Path("/root/miniconda/pkgs/simdjson-3.10.1-hdb19cb5_0")
CXX = os.environ.get("VERIF_CXX", "g++")
JOBS = int(os.environ.get("VERIF_JOBS", "16"))

VARIANTS = {
    "plain": ["-O1"],
    "asan": ["-O1", "-fsanitize=address", "-fno-omit-frame-pointer"],
}

# TUs that dominate the build (measured); start them first so the tail is short.
HEAVY_HINT = ["higher_order_impl", "collection_impl", "arithmetic_impl", "conversion_impl", "container_impl",
              "graph_wiring", "stream_impl", "comparison_impl", "temporal_impl", "control_impl", "logical_impl",
              "series_impl", "string_impl", "table_impl", "io_impl", "data_frame_impl", "json_impl", "registration",
              "record_replay_memory_impl", "map_node", "reduce_node", "switch_node", "mesh_node"]


def bdir(variant: str) -> Path:
    # VERIF_BUILD_DIR lets a snapshot of /verif (vp run) share the object cache of the main checkout
    return Path(os.environ.get("VERIF_BUILD_DIR", str(VERIF / ".build"))) / variant


def shim_dir() -> Path:
    return VERIF / "build" / "shim"


def base_flags(variant: str) -> list[str]:
    b = bdir(variant)
    return ["-std=c++23", *VARIANTS[variant], "-fPIC", "-w",
            f"-I{shim_dir()}", f"-I{b / 'gen'}", f"-I{REPO / 'include'}", f"-I{REPO / 'include' / 'third_party'}",
            f"-I{REPO / 'src'}", f"-I{SP / 'include'}", f"-I{SP / 'pyarrow' / 'include'}", f"-I{SIMDJSON / 'include'}",
            "-DHGRAPH_STATIC_DEFINE", "-DHGRAPH_TIME_ZONE_BACKEND_DATE=1", "-DUSE_OS_TZDB=1",
            "-DHGRAPH_ENABLE_PYTHON_USER_NODES=0", "-DFMT_HEADER_ONLY=1", "-DSPDLOG_FMT_EXTERNAL=1"]


def link_flags() -> list[str]:
    return [f"-L{SP / 'pyarrow'}", "-l:libarrow.so.2500", "-l:libarrow_compute.so.2500", "-l:libarrow_acero.so.2500",
            f"-L{SIMDJSON / 'lib'}", "-lsimdjson", f"-Wl,-rpath,{SP / 'pyarrow'}", f"-Wl,-rpath,{SIMDJSON / 'lib'}", "-lpthread"]


def source_list() -> list[str]:
    text = (REPO / "src" / "CMakeLists.txt").read_text()
    out: list[str] = []
    for name in ("HGRAPH_RUNTIME_SOURCES", "HGRAPH_WIRING_SOURCES", "HGRAPH_STDLIB_SOURCES"):
        m = re.search(r"set\(\s*" + name + r"\b(.*?)\)", text, re.S)
        if not m:
            raise SystemExit(f"build: cannot find {name} in src/CMakeLists.txt")
        for tok in m.group(1).split():
            if tok.endswith(".cpp") and "/python/" not in tok:
                out.append(tok)
    seen, res = set(), []
    for s in out:
        if s not in seen:
            seen.add(s)
            res.append(s)
    return res


def gen_version_header(variant: str) -> None:
    dst = bdir(variant) / "gen" / "hgraph" / "version.h"
    src = (REPO / "include" / "hgraph" / "version.h.in").read_text()
    rep = {"PROJECT_VERSION_MAJOR": "0", "PROJECT_VERSION_MINOR": "8", "PROJECT_VERSION_PATCH": "0",
           "PROJECT_VERSION": "0.8.0", "HGRAPH_GIT_BRANCH": "verif", "HGRAPH_GIT_COMMIT_HASH": "tree",
           "HGRAPH_GIT_COMMIT_DATE": "n/a"}
    for k, v in rep.items():
        src = src.replace("@" + k + "@", v)
    dst.parent.mkdir(parents=True, exist_ok=True)
    if not dst.exists() or dst.read_text() != src:
        dst.write_text(src)


def gen_json_impl(variant: str) -> Path:
    """simdjson 3.10 has no dom::element_type::BIGINT: drop those `case` arms (toolchain gap, not a property anchor)."""
    src = (REPO / "src" / "hgraph" / "lib" / "std" / "operators" / "json_impl.cpp").read_text().split("\n")
    out, skip = [], 0
    for line in src:
        if skip:
            skip -= 1
            continue
        if "element_type::BIGINT" in line and line.strip().startswith("case"):
            skip = 1
            continue
        out.append(line)
    dst = bdir(variant) / "gensrc" / "json_impl.cpp"
    dst.parent.mkdir(parents=True, exist_ok=True)
    txt = "\n".join(out)
    if not dst.exists() or dst.read_text() != txt:
        dst.write_text(txt)
    return dst


_hash_cache: dict[str, str] = {}


def file_hash(p: str) -> str:
    h = _hash_cache.get(p)
    if h is None:
        try:
            h = hashlib.sha256(Path(p).read_bytes()).hexdigest()
        except OSError:
            h = "missing"
        _hash_cache[p] = h
    return h


def parse_deps(dfile: Path) -> list[str]:
    txt = dfile.read_text().replace("\\\n", " ")
    _, _, rest = txt.partition(":")
    return [t for t in rest.split() if t]


def _norm(path: str) -> tuple[str, str]:
    """(location-independent name, path to read in THIS checkout) so that a snapshot of /verif elsewhere (vp run) and
    the main checkout share one object cache."""
    for marker, base in (("/build/shim/", shim_dir()), ("/harness/", VERIF / "harness")):
        i = path.find(marker)
        if i >= 0 and not path.startswith(str(REPO) + "/"):
            rel = path[i + len(marker):]
            return "$VERIF" + marker + rel, str(base / rel)
    for marker in ("/gen/hgraph/", "/gensrc/"):
        i = path.find(marker)
        if i >= 0 and "/.build/" in path or (i >= 0 and os.environ.get("VERIF_BUILD_DIR") and path.startswith(os.environ["VERIF_BUILD_DIR"])):
            return "$BUILD" + path[i:], path
    if path.startswith(str(REPO) + "/"):
        return "$REPO" + path[len(str(REPO)):], path
    return path, path


def tu_key(flags: list[str], src: Path, dfile: Path) -> str | None:
    if not dfile.exists():
        return None
    h = hashlib.sha256()
    nflags = []
    for f in flags:
        if f.startswith("-I"):
            nflags.append("-I" + _norm(f[2:] + "/")[0])
        else:
            nflags.append(_norm(f)[0] if f.startswith("/") else f)
    h.update(("\0".join(nflags) + "\0" + compiler_id()).encode())
    deps = parse_deps(dfile)
    if str(src) not in deps:
        deps.append(str(src))
    items = []
    for d in set(deps):
        # system headers do not change inside a sandbox run; hash only repo/verif/generated files
        if d.startswith("/usr/"):
            continue
        name, real = _norm(d)
        items.append((name, file_hash(real)))
    for name, fh in sorted(items):
        h.update(name.encode())
        h.update(fh.encode())
    return h.hexdigest()


_cid = None


def compiler_id() -> str:
    global _cid
    if _cid is None:
        _cid = subprocess.run([CXX, "--version"], capture_output=True, text=True).stdout.split("\n")[0]
    return _cid


def compile_one(args):
    cmd, obj, log = args
    t0 = time.time()
    Path(obj).unlink(missing_ok=True)  # the old object may be hard-linked into the object cache
    r = subprocess.run(cmd, capture_output=True, text=True)
    Path(log).write_text(r.stdout + r.stderr)
    return obj, r.returncode, time.time() - t0


def tu_plan(variant: str, rel: str):
    b = bdir(variant)
    name = rel.replace("/", "_")[:-4]
    obj = b / "obj" / (name + ".o")
    dfile = b / "obj" / (name + ".d")
    keyf = b / "obj" / (name + ".key")
    src = REPO / "src" / rel
    flags = base_flags(variant)
    if rel.endswith("operators/json_impl.cpp"):
        src = gen_json_impl(variant)
    if rel.endswith("types/temporal.cpp"):
        flags = flags + ["-include", str(shim_dir() / "verif_compat.h")]
    return name, src, obj, dfile, keyf, flags


def build_tree(variant: str, verbose: bool = True) -> dict:
    b = bdir(variant)
    (b / "obj").mkdir(parents=True, exist_ok=True)
    gen_version_header(variant)
    todo, objs, restored = [], [], []
    (b / "ocache").mkdir(parents=True, exist_ok=True)
    stale = {p.name for p in (b / "obj").glob("*.o")}
    for rel in source_list():
        name, src, obj, dfile, keyf, flags = tu_plan(variant, rel)
        objs.append(obj)
        stale.discard(obj.name)
        key = tu_key(flags, src, dfile) if obj.exists() else None
        if key is not None and keyf.exists() and keyf.read_text() == key:
            c = b / "ocache" / f"{name}.{key}.o"
            if not c.exists():
                try:
                    os.link(obj, c)
                except OSError:
                    shutil.copyfile(obj, c)
            continue
        cached = b / "ocache" / f"{name}.{key}.o" if key else None
        if cached is not None and cached.exists():
            # same flags + same contents of every dependency as an earlier compile: reuse that object
            obj.unlink(missing_ok=True)  # never write through a hard link into the cache
            shutil.copyfile(cached, obj)
            keyf.write_text(key)
            restored.append(name)
            continue
        cmd = [CXX, *flags, "-MMD", "-MF", str(dfile), "-c", str(src), "-o", str(obj)]
        todo.append((name, src, obj, dfile, keyf, flags, cmd))
    for s in stale:  # object of a TU no longer in the lists
        (b / "obj" / s).unlink()

    def weight(item):
        n = item[0]
        for i, h in enumerate(HEAVY_HINT):
            if h in n:
                return i
        return len(HEAVY_HINT)

    todo.sort(key=weight)
    t0 = time.time()
    failed = []
    if todo:
        if verbose:
            print(f"build[{variant}]: compiling {len(todo)} TU(s) with {JOBS} jobs", flush=True)
        with cf.ThreadPoolExecutor(JOBS) as ex:
            futs = {ex.submit(compile_one, (it[6], str(it[2]), str(it[2]) + ".log")): it for it in todo}
            for f in cf.as_completed(futs):
                it = futs[f]
                obj, rc, dt = f.result()
                if rc != 0:
                    failed.append((it[0], str(it[2]) + ".log"))
                    if it[4].exists():
                        it[4].unlink()
                else:
                    _hash_cache.clear()
                    k = tu_key(it[5], it[1], it[3])
                    it[4].write_text(k or "")
                    if k:
                        old = sorted((b / "ocache").glob(f"{it[0]}.*.o"), key=lambda p: p.stat().st_mtime)
                        for o in old[:-3]:
                            o.unlink()
                        shutil.copyfile(it[2], b / "ocache" / f"{it[0]}.{k}.o")
    if failed:
        for n, log in failed:
            print(f"build: FAILED {n}; log {log}", file=sys.stderr)
            print(Path(log).read_text()[-3000:], file=sys.stderr)
        raise SystemExit(2)
    lib = b / "libhgraph_tree.so"
    relinked = False
    if todo or restored or not lib.exists() or stale:
        cmd = [CXX, "-shared", *VARIANTS[variant], "-o", str(lib) + ".tmp", *map(str, objs), "-Wl,--no-undefined", *link_flags()]
        r = subprocess.run(cmd, capture_output=True, text=True)
        if r.returncode != 0:
            print("build: link failed\n" + (r.stdout + r.stderr)[-4000:], file=sys.stderr)
            raise SystemExit(2)
        os.replace(str(lib) + ".tmp", lib)
        relinked = True
    return {"recompiled": [t[0] for t in todo], "restored_from_cache": restored, "relinked": relinked, "wall_s": round(time.time() - t0, 1)}


def build_harness(variant: str, verbose: bool = True) -> dict:
    b = bdir(variant)
    hdir = VERIF / "harness"
    (b / "hobj").mkdir(parents=True, exist_ok=True)
    flags = base_flags(variant) + [f"-I{hdir}"]
    todo, objs = [], []
    for src in sorted(hdir.glob("*.cpp")):
        name = src.stem
        obj = b / "hobj" / (name + ".o")
        dfile = b / "hobj" / (name + ".d")
        keyf = b / "hobj" / (name + ".key")
        objs.append(obj)
        key = tu_key(flags, src, dfile) if obj.exists() else None
        if key is not None and keyf.exists() and keyf.read_text() == key:
            continue
        cmd = [CXX, *flags, "-MMD", "-MF", str(dfile), "-c", str(src), "-o", str(obj)]
        todo.append((name, src, obj, dfile, keyf, flags, cmd))
    failed = []
    t0 = time.time()
    if todo:
        if verbose:
            print(f"build[{variant}]: compiling {len(todo)} harness TU(s)", flush=True)
        with cf.ThreadPoolExecutor(JOBS) as ex:
            futs = {ex.submit(compile_one, (it[6], str(it[2]), str(it[2]) + ".log")): it for it in todo}
            for f in cf.as_completed(futs):
                it = futs[f]
                obj, rc, dt = f.result()
                if rc != 0:
                    failed.append((it[0], str(it[2]) + ".log"))
                    if it[4].exists():
                        it[4].unlink()
                else:
                    _hash_cache.clear()
                    it[4].write_text(tu_key(it[5], it[1], it[3]) or "")
    if failed:
        for n, log in failed:
            print(f"build: FAILED harness {n}; log {log}", file=sys.stderr)
            print(Path(log).read_text()[-6000:], file=sys.stderr)
        raise SystemExit(2)
    exe = b / "hgv_worker"
    lib = b / "libhgraph_tree.so"
    if todo or not exe.exists() or exe.stat().st_mtime < lib.stat().st_mtime:
        cmd = [CXX, *VARIANTS[variant], "-o", str(exe) + ".tmp", *map(str, objs), f"-L{b}", "-lhgraph_tree",
               f"-Wl,-rpath,{b}", *link_flags()]
        r = subprocess.run(cmd, capture_output=True, text=True)
        if r.returncode != 0:
            print("build: harness link failed\n" + (r.stdout + r.stderr)[-4000:], file=sys.stderr)
            raise SystemExit(2)
        os.replace(str(exe) + ".tmp", exe)
    return {"harness_recompiled": [t[0] for t in todo], "wall_s": round(time.time() - t0, 1)}


def tree_fingerprint() -> str:
    h = hashlib.sha256()
    for rel in source_list():
        h.update(rel.encode())
        h.update(file_hash(str(REPO / "src" / rel)).encode())
    return h.hexdigest()[:16]


def ensure(variant: str = "plain", verbose: bool = True) -> dict:
    """Bring .build/<variant> up to date with /repo's working tree. Serialised by a lock file."""
    b = bdir(variant)
    b.mkdir(parents=True, exist_ok=True)
    with open(b / ".lock", "w") as lk:
        fcntl.flock(lk, fcntl.LOCK_EX)
        _hash_cache.clear()
        info = build_tree(variant, verbose)
        info.update(build_harness(variant, verbose))
        info["fingerprint"] = tree_fingerprint()
        info["variant"] = variant
        (b / "build_info.json").write_text(json.dumps(info))
        return info


if __name__ == "__main__":
    v = sys.argv[1] if len(sys.argv) > 1 else "plain"
    print(json.dumps(ensure(v)))
