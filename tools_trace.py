#!/usr/bin/env python3
"""debug helper: print the case and trace of a replay file"""
import json,sys
sys.path.insert(0,'/verif')
from hgv.worker import Worker
d=json.load(open(sys.argv[1]))
print(json.dumps(d["case"])); print(d.get("violation"))
if len(sys.argv)>2:
    prog=d["case"].get("prog", d["case"]); w=Worker(); r=w.request({"op":"run","prog":prog}); w.close()
    print(r.get("graph")); print(r.get("error"))
    for e in r["trace"]: print(e)
