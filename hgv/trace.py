"""Helpers to walk the event trace returned by the worker.

Trace entries (see harness/hv_run.cpp, hv_nodes.cpp):
  ["gS",gid] ["gs",gid] ["gsf",gid]              graph start before/after/failed
  ["nS",gid,idx,label] ["ns",gid,idx] ["nsf",gid,idx]   node start
  ["gE",gid,t] ["ge",gid,t,nst]                   graph evaluation bracket (nst = next_scheduled_time after the cycle)
  ["nE",gid,idx] ["ne",gid,idx]                   engine visits a node (user code may be gated off)
  ["nP",gid,idx] ["np",gid,idx] ["npf",gid,idx]   node stop
  ["gP",gid] ["gp",gid] ["gpf",gid]               graph stop
  ["us",gid,idx,label,t,(sched-log)] ["up",gid,idx,label,t]   user start / stop code ran
  ["ev",gid,idx,label,t,ord,(ins,extra)]          user evaluation code ran
  ["snap",t,[...]]  ["phase",name]  ["gs",{...}]
"""
from __future__ import annotations

MAXT = "max"


def tnum(t):
    """time json -> comparable number (max -> +inf, never -> -inf)."""
    if t == "max":
        return float("inf")
    if t == -1:
        return float("-inf")
    if isinstance(t, str) and t.startswith("pre"):
        return float("-inf")
    return t


class Cycle:
    __slots__ = ("gid", "t", "nst", "visits", "evals", "closed")

    def __init__(self, gid, t):
        self.gid, self.t, self.nst = gid, t, None
        self.visits = []   # node indices in visit order
        self.evals = []    # user eval entries (dict)
        self.closed = False


class Trace:
    def __init__(self, entries):
        self.entries = entries
        self.cycles = {}        # gid -> [Cycle]
        self.user_evals = []    # dicts
        self.user_starts = []
        self.user_stops = []
        self.snaps = []
        self.lifecycle = []     # raw lifecycle entries in order
        self.phases = {}
        self.gs = None
        self._parse()

    def _parse(self):
        open_cycles = {}
        for pos, e in enumerate(self.entries):
            k = e[0]
            if k == "gE":
                c = Cycle(e[1], e[2])
                self.cycles.setdefault(e[1], []).append(c)
                open_cycles[e[1]] = c
            elif k == "ge":
                c = open_cycles.pop(e[1], None)
                if c is not None:
                    c.nst = e[3]
                    c.closed = True
            elif k == "nE":
                c = open_cycles.get(e[1])
                if c is not None:
                    c.visits.append(e[2])
            elif k == "ev":
                d = {"gid": e[1], "idx": e[2], "label": e[3], "t": e[4], "ord": e[5], "ins": e[6] if len(e) > 6 else None,
                     "x": e[7] if len(e) > 7 else {}, "pos": pos}
                self.user_evals.append(d)
                c = open_cycles.get(e[1])
                if c is not None:
                    c.evals.append(d)
            elif k == "us":
                self.user_starts.append({"gid": e[1], "idx": e[2], "label": e[3], "t": e[4], "sq": e[5] if len(e) > 5 else [], "pos": pos})
            elif k == "up":
                self.user_stops.append({"gid": e[1], "idx": e[2], "label": e[3], "t": e[4], "pos": pos})
            elif k == "snap":
                self.snaps.append((e[1], e[2]))
            elif k == "phase":
                self.phases[e[1]] = pos
            elif k == "gs" and len(e) == 2 and isinstance(e[1], dict):
                self.gs = e[1]
            if k in ("gS", "gs", "gsf", "nS", "ns", "nsf", "nP", "np", "npf", "gP", "gp", "gpf", "nE", "ne", "gE", "ge"):
                self.lifecycle.append((pos, e))

    def root_cycles(self):
        return self.cycles.get("r", [])

    def evals_of(self, label, gid=None):
        return [d for d in self.user_evals if d["label"] == label and (gid is None or d["gid"] == gid)]

    def stream(self, label, inp=0, gid=None):
        """(t, value, delta) seen by recorder node `label` on input `inp` at each of its evaluations where that
        input was modified."""
        out = []
        for d in self.evals_of(label, gid):
            i = d["ins"][inp]
            if i is not None and i.get("m"):
                out.append((d["t"], i.get("val"), i.get("cd")))
        return out
