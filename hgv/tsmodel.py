"""Schemas, a Python value model and history generators for time-series collections (C04, C05, C20).

The model is sequential application of the script's mutations to plain Python values - nothing engine-like:
  TS   : value, valid (written and not invalidated since), last written time
  TSS  : python set            TSD : dict key -> child model (created on first set/at, dropped on erase)
  TSL/TSB : list of child models (fixed shape)      TSW : list of the last `period` pushes
`written` marks what the script touched in the current cycle (propagates to ancestors).
"""
from __future__ import annotations

from hypothesis import strategies as st


# ------------------------------------------------------------------------------------------------------- schemas
def ts(t="int"):
    return ("TS", t)


def schema_str(s):
    k = s[0]
    if k == "TS":
        return f"TS[{s[1]}]"
    if k == "TSS":
        return f"TSS[{s[1]}]"
    if k == "TSW":
        if isinstance(s[2], (list, tuple)):      # ("dur", R): a duration window holding the pushes of the last R time units
            return f"TSWD[{s[1]},{s[2][1]}]"
        return f"TSW[{s[1]},{s[2]},{s[3]}]"
    if k == "TSD":
        return f"TSD[{s[1]},{schema_str(s[2])}]"
    if k == "TSL":
        return f"TSL[{schema_str(s[1])},{s[2]}]"
    if k == "TSB":
        return "TSB[" + ",".join(f"{n}:{schema_str(c)}" for n, c in s[1]) + "]"
    if k == "SIGNAL":
        return "SIGNAL"
    raise ValueError(k)


def schema_depth(s):
    k = s[0]
    if k in ("TS", "TSS", "TSW", "SIGNAL"):
        return 1
    if k == "TSD":
        return 1 + schema_depth(s[2])
    if k == "TSL":
        return 1 + schema_depth(s[1])
    return 1 + max(schema_depth(c) for _, c in s[1])


def schema_kinds(s, out=None):
    out = set() if out is None else out
    out.add(s[0])
    if s[0] == "TSD":
        schema_kinds(s[2], out)
    elif s[0] == "TSL":
        schema_kinds(s[1], out)
    elif s[0] == "TSB":
        for _, c in s[1]:
            schema_kinds(c, out)
    return out


@st.composite
def schemas(draw, max_depth=3, windows=True, top=True):
    leaves = [("TS", "int"), ("TS", "int"), ("TS", "str"), ("TS", "bool"), ("TSS", draw(st.sampled_from(["int", "int", "str"])))]
    if windows:
        p = draw(st.integers(1, 5))
        leaves.append(("TSW", "int", p, draw(st.integers(1, p))))
    if max_depth <= 1:
        return draw(st.sampled_from(leaves))
    k = draw(st.sampled_from(["leaf", "leaf", "TSD", "TSD", "TSL", "TSB"] if not top else ["leaf", "TSD", "TSD", "TSS", "TSL", "TSB", "TSB"]))
    if k == "leaf":
        return draw(st.sampled_from(leaves))
    if k == "TSS":
        return ("TSS", draw(st.sampled_from(["int", "int", "str"])))
    if k == "TSD":
        return ("TSD", draw(st.sampled_from(["int", "int", "str"])), draw(schemas(max_depth - 1, windows=False, top=False)))
    if k == "TSL":
        return ("TSL", draw(schemas(max_depth - 1, windows=windows, top=False)), draw(st.integers(1, 3)))
    n = draw(st.integers(1, 3))
    return ("TSB", [(f"f{i}", draw(schemas(max_depth - 1, windows=windows, top=False))) for i in range(n)])


# ------------------------------------------------------------------------------------------------------- model
class M:
    """model of one time-series node."""

    def __init__(self, schema):
        self.s = schema
        self.k = schema[0]
        self.valid = False
        self.ever = False
        self.lmt = -1
        self.written = False
        self.invalidated_now = False
        self.value = None
        if self.k == "TSS":
            self.value = set()
        elif self.k == "TSD":
            self.value = {}
        elif self.k == "TSL":
            self.value = [M(schema[1]) for _ in range(schema[2])]
        elif self.k == "TSB":
            self.value = [M(c) for _, c in schema[1]]
        elif self.k == "TSW":
            self.value = []
            self.times = []
            self.count = 0
            self.evicted = None
            self.evicted_at = None
            self.cleared_now = False
        self.pre = None  # value at the start of the cycle (sets/dict keys) for delta expectations
        self.erased_now = set()

    # --- cycle bookkeeping
    def begin_cycle(self):
        self.written = False
        self.invalidated_now = False
        self.erased_now = set()
        if self.k == "TSS":
            self.pre = set(self.value)
        elif self.k == "TSD":
            self.pre = set(self.value)
            for c in self.value.values():
                c.begin_cycle()
        elif self.k in ("TSL", "TSB"):
            for c in self.value:
                c.begin_cycle()

    def touched(self):
        """written or invalidated (by the script) in the current cycle, here or anywhere below"""
        if self.k in ("TSL", "TSB"):
            return any(c.touched() for c in self.value)
        if self.k == "TSD":
            return self.written or self.invalidated_now or bool(self.erased_now) or any(c.touched() for c in self.value.values())
        return self.written or self.invalidated_now

    def ever_written(self):
        if self.k in ("TSL", "TSB"):
            # latched: a fixed-shape parent stays valid although every child has been invalidated since; only its OWN (or an
            # ancestor's) invalidation ends that
            if not getattr(self, "ever_flag", False) and any(c.ever_written() for c in self.value):
                self.ever_flag = True
            return getattr(self, "ever_flag", False)
        return self.ever

    def invalidate_rec(self):
        """explicit invalidation of this endpoint: it and everything below it become invalid (lmt = never)"""
        if self.k in ("TSL", "TSB"):
            was = self.ever_written()
            self.ever_flag = False
            for c in self.value:
                c.invalidate_rec()
            if was:
                self.invalidated_now = True
            return
        if self.k == "TSD":
            for c in self.value.values():
                c.invalidate_rec()
        if self.valid or self.ever:
            self.invalidated_now = True
        self.valid = False
        self.ever = False
        self.lmt = -1

    def mark(self, t):
        self.ever = True
        self.written = True
        self.lmt = t
        self.valid = True

    # --- reads
    def is_valid(self):
        """statement validity (a tick window is valid only from its minimum count). A fixed-shape parent is valid from
        its first write (through any child); only an explicit invalidation of the parent itself would end that."""
        if self.k in ("TSL", "TSB"):
            return self.ever_written()
        if self.k == "TSW":
            return self.valid and self.count >= self.s[3]
        return self.valid

    def has_data(self):
        if self.k in ("TSL", "TSB"):
            return any(c.has_data() for c in self.value)
        return self.valid

    def all_valid(self):
        if self.k in ("TSL", "TSB"):
            return all(c.all_valid() for c in self.value)
        if self.k == "TSD":
            return self.valid and all(c.all_valid() for c in self.value.values())
        return self.is_valid()

    def modified(self):
        if self.k in ("TSL", "TSB"):
            return any(c.modified() for c in self.value)
        if self.k == "TSD":
            return self.written or any(c.modified() for c in self.value.values())
        return self.written

    def last_modified(self):
        if self.k in ("TSL", "TSB"):
            return max(c.last_modified() for c in self.value)
        if self.k == "TSD":
            return max([self.lmt] + [c.last_modified() for c in self.value.values()])
        return self.lmt

    def val(self):
        """comparable python value in the harness' canonical JSON shape; None when invalid."""
        k = self.k
        if k == "TS":
            return self.value if self.valid else None
        if k == "TSS":
            return sorted(self.value) if self.valid else None
        if k == "TSD":
            return sorted([key, c.val()] for key, c in self.value.items()) if self.valid else None
        if k == "TSL":
            return [c.val() for c in self.value] if self.has_data() else None
        if k == "TSB":
            return {n: c.val() for (n, _), c in zip(self.s[1], self.value)} if self.has_data() else None
        if k == "TSW":
            return list(self.value) if self.valid else None
        return None

    # --- writes (t = cycle time); return True when the op was effective
    def apply(self, op, t):
        if op.get("k") == "inval" and self.k in ("TSL", "TSB"):
            self.invalidate_rec()
            return False
        k = op["k"]
        if k == "set":
            self.value = op["v"]
            self.mark(t)
            return True
        if k == "inval":
            if self.valid:
                self.valid = False
                self.invalidated_now = True
                self.lmt = -1
            return False
        if k == "tick":
            self.mark(t)
            return True
        if k == "wclear":
            self.value = []
            self.times = []
            self.count = 0
            self.evicted = None
            self.cleared_now = True
            if "v" in op:
                self.value.append(op["v"])
                self.times.append(t)
                self.count = 1
            self.mark(t)
            return True
        if k == "push" and isinstance(self.s[2], (list, tuple)):
            # duration window: entries older than the range are pruned when a new value is pushed
            self.value.append(op["v"])
            self.times.append(t)
            self.count += 1
            self.pruned_now = 0
            while self.times and self.times[0] < t - self.s[2][1]:
                self.times.pop(0)
                self.value.pop(0)
                self.pruned_now += 1
            self.evicted_at = t
            self.mark(t)
            return True
        if k == "push":
            self.value.append(op["v"])
            self.count += 1
            self.evicted = None
            if len(self.value) > self.s[2]:
                self.evicted = self.value.pop(0)     # the element this tick pushed out (readable as removed_value)
            self.evicted_at = t
            self.mark(t)
            return True
        if k == "S":
            eff = False
            for o in op["ops"]:
                if o[0] == "add":
                    if o[1] not in self.value:
                        self.value.add(o[1])
                        eff = True
                elif o[0] == "rem":
                    if o[1] in self.value:
                        self.value.discard(o[1])
                        eff = True
                elif o[0] == "clear":
                    eff = True      # clear() of an already empty (or never written) set is still a write: an empty tick
                    self.value.clear()
                elif o[0] == "touch":
                    eff = True
            if eff:
                self.mark(t)
            return eff
        if k == "D":
            eff = False
            for o in op["ops"]:
                if o[0] == "set":
                    c = self.value.get(o[1])
                    if c is None:
                        c = self.value[o[1]] = M(self.s[2])
                    c.apply({"k": "set", "v": o[2]}, t)
                    eff = True
                elif o[0] == "erase":
                    if o[1] in self.value:
                        del self.value[o[1]]
                        self.erased_now.add(o[1])
                    eff = True      # an erase that removes nothing is still a write: the dictionary ticks with an empty delta
                elif o[0] == "clear":
                    eff = True      # also on an empty / never written dictionary (it becomes valid and empty)
                    self.erased_now |= set(self.value)
                    self.value.clear()
                elif o[0] == "touch":
                    eff = True
                elif o[0] == "at":
                    c = self.value.get(o[1])
                    if c is None:
                        c = self.value[o[1]] = M(self.s[2])
                        eff = True
                    if c.apply(o[2], t):
                        eff = True
            if eff:
                self.mark(t)
            return eff
        if k == "i":
            eff = self.value[op["i"]].apply(op["op"], t)
            self.ever_written()     # keep the validity latch of this (fixed-shape) parent current
            return eff
        if k == "setd":
            # whole-dictionary write: keys missing from the new contents are removed, the listed ones are written
            new = {kk: vv for kk, vv in op["v"]}
            eff = False
            for kk in [x for x in self.value if x not in new]:
                del self.value[kk]
                self.erased_now.add(kk)
                eff = True
            for kk, vv in new.items():
                c = self.value.get(kk)
                if c is None:
                    c = self.value[kk] = M(self.s[2])
                c.apply({"k": "set", "v": vv}, t)
                eff = True
            # an empty value written to an empty dictionary still makes it valid (a tick of the empty collection)
            self.mark(t)
            return True
        if k == "sets":
            # whole-set write: the listed elements are the new contents. Also an empty value written to an empty (or
            # never written) set is a write: the set becomes valid and ticks with an empty delta
            self.value = set(op["v"])
            self.mark(t)
            return True
        if k == "setv":
            # whole-value write of a partially populated bundle value: only the populated leaves are written
            if self.k == "TS":
                return self.apply({"k": "set", "v": op["v"]}, t)
            if self.k == "TSS":
                return self.apply({"k": "sets", "v": op["v"]}, t)
            eff = False
            for i, spec in op["v"].items():
                if self.value[int(i)].apply({"k": "setv", "v": spec}, t):
                    eff = True
            self.ever_written()     # keep the validity latch of this (fixed-shape) parent current
            return eff
        raise ValueError(f"model: op {k}")


# ------------------------------------------------------------------------------------------------------- history gen
def _scalar(draw, t):
    if t == "int":
        return draw(st.integers(-3, 30))
    if t == "bool":
        return draw(st.booleans())
    return draw(st.sampled_from(["", "a", "b", "xy", "zé"]))


def gen_op(draw, m: M, t, opts):
    """draw one mutation op for node `m` given its current model state; applies it to the model; returns the op JSON.
    opts: {"inval": bool, "cancel": bool, "keys": int, "multi": bool}"""
    k = m.k
    if k == "TS":
        if opts.get("inval") and m.valid and draw(st.integers(0, 7)) == 0:
            op = {"k": "inval"}
        else:
            op = {"k": "set", "v": _scalar(draw, m.s[1])}
        m.apply(op, t)
        return op
    if k == "SIGNAL":
        op = {"k": "tick"}
        m.apply(op, t)
        return op
    if k == "TSW":
        if m.written:
            return None  # the engine allows one window tick per evaluation time
        op = {"k": "push", "v": draw(st.integers(0, 99))}
        m.apply(op, t)
        return op
    if k == "TSS":
        if opts.get("cancel", True) and not m.value and draw(st.integers(0, 2)) == 0:
            # clear() of a set that is already empty (or was never written): a mutation call that changes nothing; it is an
            # empty tick (the set becomes valid) and must leave no trace in the delta
            op = {"k": "S", "ops": [["clear"]]}
            m.apply(op, t)
            return op
        if opts.get("whole") and m.s[1] == "int" and draw(st.integers(0, 3)) == 0:
            # whole-set write (copy or move flavour), also AFTER element-wise mutations of the same cycle (an element added earlier
            # in the cycle and not in the new contents must leave no trace); often the empty set
            new = [] if draw(st.integers(0, 2)) == 0 else sorted(draw(st.sets(st.integers(0, opts.get("keys", 8)), max_size=4)))
            op = {"k": "sets", "v": new, "move": draw(st.booleans())}
            m.apply(op, t)
            return op
        nmax = 4 if opts.get("multi", True) else 1
        ops = []
        universe = opts.get("keys", 8)
        grow = opts.get("grow") and draw(st.integers(0, 5)) == 0
        n = draw(st.integers(6, 20)) if grow else draw(st.integers(1, nmax))

        def emit(*os):
            ops.extend(os)
            m.apply({"k": "S", "ops": [list(o) for o in os]}, t)

        def fresh():
            return next(x for x in range(100000) if x not in m.value)

        for _ in range(n):
            live = sorted(m.value)
            c = "add" if grow else draw(st.sampled_from(["add", "add", "rem", "cancel_new", "cancel_live", "clear"] if opts.get("cancel", True) else ["add", "add", "rem"]))
            if c == "add":
                e = draw(st.integers(0, universe * (5 if grow else 1)))
                emit(["add", e if e not in m.value else fresh()])
            elif c == "rem" and live:
                emit(["rem", draw(st.sampled_from(live))])
            elif c == "cancel_new":
                e = fresh()
                emit(["add", e], ["rem", e])
            elif c == "cancel_live" and live:
                e = draw(st.sampled_from(live))
                emit(["rem", e], ["add", e])
            elif c == "clear" and live and draw(st.booleans()):
                emit(["clear"])
            else:
                emit(["add", fresh()])
        return {"k": "S", "ops": ops}
    if k == "TSD" and opts.get("whole_dict") and m.s[1] == "int" and m.s[2] == ("TS", "int") and not m.touched() and draw(st.integers(0, 3)) == 0:
        # whole-dictionary write (copy or move flavour): only as the first operation on the dictionary in a cycle
        universe = opts.get("keys", 8)
        new = sorted(draw(st.sets(st.integers(0, universe), max_size=5)))
        op = {"k": "setd", "v": [[kk, draw(st.integers(-3, 30))] for kk in new], "move": draw(st.booleans())}
        m.apply(op, t)
        return op
    if k == "TSD":
        child = m.s[2]
        leaf = child[0] == "TS"
        nmax = 4 if opts.get("multi", True) else 1
        universe = opts.get("keys", 8)
        grow = opts.get("grow") and draw(st.integers(0, 5)) == 0
        n = draw(st.integers(6, 20)) if grow else draw(st.integers(1, nmax))
        ops = []

        def child_write(key):
            if leaf:
                o = ["set", key, _scalar(draw, child[1])]
                m.apply({"k": "D", "ops": [o]}, t)
                return o
            c = m.value.get(key)
            if c is None:
                c = M(child)  # scratch for generation; the real create happens in apply below
                c.begin_cycle()
                tmp = gen_op(draw, c, t, dict(opts, inval=False, grow=False))
                if not c.ever_written():
                    # a key is added by writing its element: a whole-value write that populates nothing would create a
                    # key without any value, which no delta can express
                    tmp = gen_op(draw, c, t, dict(opts, inval=False, grow=False, whole=False))
                o = ["at", key, tmp]
                # replay on the real model
                m.apply({"k": "D", "ops": [o]}, t)
                return o
            tmp_op = gen_op(draw, c, t, dict(opts, inval=False, grow=False))
            if tmp_op is not None and tmp_op.get("k") == "setv" and not c.modified():
                tmp_op = gen_op(draw, c, t, dict(opts, inval=False, grow=False, whole=False))
            m.mark(t)
            return ["at", key, tmp_op]

        if opts.get("cancel", True) and not grow and draw(st.integers(0, 9 if m.value else 4)) == 0:
            # a mutation call that removes nothing - clear() of an empty (or never written) dictionary, erase of an absent key:
            # the dictionary ticks with an empty delta and, as a first write, becomes valid (its key set too)
            o = ["clear"] if not m.value and draw(st.booleans()) else ["erase", next(x for x in range(50, 100000) if x not in m.value and x not in m.erased_now)]
            m.apply({"k": "D", "ops": [o]}, t)
            return {"k": "D", "ops": [o]}
        for _ in range(n):
            live = sorted(m.value)
            choices = ["new", "new", "update", "update", "erase", "erase"] + (["set_erase", "set_erase", "clear", "erase_set"] + (["set_erase_set"] if draw(st.integers(0, 3)) == 0 else []) if opts.get("cancel", True) else [])
            if opts.get("no_rewrite"):
                choices = [c for c in choices if c not in ("erase_set", "set_erase_set")]
            c = "new" if grow else draw(st.sampled_from(choices))
            fresh = next(x for x in range(100000) if x not in m.value and x not in m.erased_now)
            if c == "new" or not live:
                key = draw(st.integers(0, universe * (5 if grow else 1)))
                if key in m.value or (opts.get("no_rewrite") and key in m.erased_now):
                    key = fresh
                ops.append(child_write(key))
            elif c == "update":
                ops.append(child_write(draw(st.sampled_from(live))))
            elif c == "erase":
                o = ["erase", draw(st.sampled_from(live))]
                m.apply({"k": "D", "ops": [o]}, t)
                ops.append(o)
            elif c == "erase_set":
                key = draw(st.sampled_from(live))
                o = ["erase", key]
                m.apply({"k": "D", "ops": [o]}, t)
                ops.append(o)
                ops.append(child_write(key))
            elif c == "set_erase":
                ops.append(child_write(fresh))
                o = ["erase", fresh]
                m.apply({"k": "D", "ops": [o]}, t)
                ops.append(o)
            elif c == "set_erase_set":
                key = draw(st.sampled_from(live + [fresh]))
                ops.append(child_write(key))
                o = ["erase", key]
                m.apply({"k": "D", "ops": [o]}, t)
                ops.append(o)
                ops.append(child_write(key))
            elif c == "clear":
                if draw(st.booleans()):
                    o = ["clear"]
                    m.apply({"k": "D", "ops": [o]}, t)
                    ops.append(o)
                else:
                    ops.append(child_write(fresh))
        return {"k": "D", "ops": ops}
    if k == "TSB" and opts.get("whole") and not m.touched() and draw(st.integers(0, 3)) == 0:
        # whole-value write of a partially populated bundle value (unset fields are skipped by the engine); generated
        # only while nothing below was written or invalidated yet in this cycle (the engine refuses a whole-value write over a
        # nested container that was already stamped in the cycle: "fixed TSData child reported a duplicate modification"). The degenerate value that populates nothing - at the
        # top or in a nested bundle field - must leave every flag untouched.
        op = {"k": "setv", "v": _partial(draw, m.s), "move": draw(st.booleans())}
        m.apply(op, t)
        return op
    if k in ("TSL", "TSB") and opts.get("inval") and opts.get("inval_composite") and m.is_valid() and (k == "TSB" or m.s[2] > 0) and set(schema_kinds(m.s)) <= {"TS", "TSB", "TSL"} and draw(st.integers(0, 11)) == 0:
        # explicit invalidation of a fixed-shape COLLECTION endpoint: it and everything below it become invalid (only over
        # scalar leaves: what the elements of a set / dictionary below an invalidated parent read is not stated anywhere)
        op = {"k": "inval"}
        m.apply(op, t)
        return op
    if k in ("TSL", "TSB"):
        i = draw(st.integers(0, len(m.value) - 1))
        op = gen_op(draw, m.value[i], t, opts)
        return None if op is None else {"k": "i", "i": i, "op": op}
    raise ValueError(k)


def _partial(draw, schema):
    """a partially populated value for a TSB position: {"<index>": scalar | nested spec}; only TS and TSB fields are populated"""
    out = {}
    for i, (_, cs) in enumerate(schema[1]):
        if cs[0] == "TS" and draw(st.integers(0, 2)) != 0:
            out[str(i)] = _scalar(draw, cs[1])
        elif cs[0] == "TSB" and draw(st.integers(0, 2)) != 0:
            out[str(i)] = _partial(draw, cs)
        elif cs[0] == "TSS" and cs[1] == "int" and draw(st.integers(0, 2)) != 0:
            out[str(i)] = [] if draw(st.booleans()) else sorted(draw(st.sets(st.integers(0, 8), max_size=3)))
    return out


@st.composite
def history(draw, schema, start, horizon, opts=None, max_cycles=10):
    """(script, expected) for a writer of `schema`: script = [[t, [ops...]]]; expected = per script time a snapshot of
    the model: {"t", "value", "valid", "modified"...}. The model object itself is rebuilt by replay() for oracles."""
    opts = dict(opts or {})
    from hgv.gen import time_set
    times = draw(time_set(start, start + horizon - 1, 1, max_cycles))
    m = M(schema)
    script = []
    for t in times:
        m.begin_cycle()
        n = draw(st.integers(1, 3 if opts.get("multi", True) else 1))
        ops = [o for o in (gen_op(draw, m, t, opts) for _ in range(n)) if o is not None]
        if ops:
            script.append([t, ops])
    return stringify(script, schema)


def stringify(script, schema):
    """histories are generated over integer elements/keys; where the schema says `str` they are renamed to strings"""
    def has_str(sc):
        k = sc[0]
        if k == "TSS":
            return sc[1] == "str"
        if k == "TSD":
            return sc[1] == "str" or has_str(sc[2])
        if k == "TSL":
            return has_str(sc[1])
        if k == "TSB":
            return any(has_str(c) for _, c in sc[1])
        return False

    def nm(x):
        return f"k{x}"

    def conv(op, sc):
        if op is None:
            return op
        k = op["k"]
        if k == "S" and sc[0] == "TSS" and sc[1] == "str":
            return {"k": "S", "ops": [[o[0], nm(o[1])] if len(o) > 1 else list(o) for o in op["ops"]]}
        if k == "D" and sc[0] == "TSD":
            out = []
            for o in op["ops"]:
                o = list(o)
                if len(o) > 1 and sc[1] == "str":
                    o[1] = nm(o[1])
                if o[0] == "at":
                    o[2] = conv(o[2], sc[2])
                out.append(o)
            return {"k": "D", "ops": out}
        if k == "i":
            child = sc[1] if sc[0] == "TSL" else sc[1][op["i"]][1]
            return dict(op, op=conv(op["op"], child))
        return op
    if not has_str(schema):
        return script
    return [[t, [conv(o, schema) for o in ops]] for t, ops in script]


def replay(schema, script, upto=None):
    """re-run a script through the model, yielding (t, model) after each scripted cycle."""
    m = M(schema)
    out = []
    for t, ops in script:
        m.begin_cycle()
        for op in ops:
            m.apply(op, t)
        out.append((t, m))
        yield t, m
