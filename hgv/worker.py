"""Client for the native harness process (hgv_worker): JSON lines over stdin/stdout, restart on crash/timeout."""
from __future__ import annotations

import json
import os
import select
import signal
import subprocess
import tempfile
from pathlib import Path

VERIF = Path(__file__).resolve().parent.parent


class HarnessError(Exception):
    """The harness itself misbehaved (bad request, protocol error). Never a property violation."""


class Rejected(Exception):
    """The tree refused to wire/build a program the generator constructs as valid. On the unchanged tree this never
    happens (that is checked); on a changed tree the case is skipped and counted so that the search continues - if
    more than a fifth of the cases are refused the check ends as a harness error instead."""


class Worker:
    def __init__(self, variant: str = "plain", recycle_every: int = 1500, timeout: float = 60.0):
        self.exe = str(Path(os.environ.get("VERIF_BUILD_DIR", str(VERIF / ".build"))) / variant / "hgv_worker")
        self.recycle_every = recycle_every
        self.timeout = timeout
        self.proc = None
        self.n = 0
        self.crashes = 0
        self.requests = 0
        self._buf = b""
        self._errf = None

    def _start(self):
        self._errf = tempfile.TemporaryFile()
        env = dict(os.environ)
        env.setdefault("ASAN_OPTIONS", "detect_leaks=0:abort_on_error=1")
        self.proc = subprocess.Popen([self.exe], stdin=subprocess.PIPE, stdout=subprocess.PIPE, stderr=self._errf, env=env)
        self.n = 0
        self._buf = b""

    def close(self):
        if self.proc is not None:
            try:
                self.proc.stdin.close()
            except Exception:
                pass
            try:
                self.proc.wait(timeout=2)
            except Exception:
                self.proc.kill()
                self.proc.wait()
            self.proc = None
        if self._errf is not None:
            self._errf.close()
            self._errf = None

    def _stderr_tail(self) -> str:
        try:
            self._errf.seek(0, 2)
            size = self._errf.tell()
            self._errf.seek(max(0, size - 3000))
            return self._errf.read().decode("utf-8", "replace")
        except Exception:
            return ""

    def _readline(self, timeout: float):
        fd = self.proc.stdout.fileno()
        import time
        end = time.time() + timeout
        while True:
            nl = self._buf.find(b"\n")
            if nl >= 0:
                line, self._buf = self._buf[:nl], self._buf[nl + 1:]
                return line
            left = end - time.time()
            if left <= 0:
                return None
            r, _, _ = select.select([fd], [], [], left)
            if not r:
                return None
            chunk = os.read(fd, 1 << 20)
            if not chunk:
                return b""  # EOF: process died
            self._buf += chunk

    def request(self, obj: dict, timeout: float | None = None) -> dict:
        """Returns the harness response, or {"crash": True, ...} if the engine process died / hung."""
        if self.proc is None or self.proc.poll() is not None or self.n >= self.recycle_every:
            self.close()
            self._start()
        self.n += 1
        self.requests += 1
        data = (json.dumps(obj, separators=(",", ":")) + "\n").encode()
        try:
            self.proc.stdin.write(data)
            self.proc.stdin.flush()
        except (BrokenPipeError, OSError):
            line = b""
        else:
            line = self._readline(timeout or self.timeout)
        if line is None:  # hang
            self.crashes += 1
            self.proc.kill()
            self.proc.wait()
            tail = self._stderr_tail()
            self.close()
            return {"crash": True, "hang": True, "stderr": tail}
        if line == b"":
            self.crashes += 1
            try:
                rc = self.proc.wait(timeout=5)
            except Exception:
                self.proc.kill()
                rc = self.proc.wait()
            tail = self._stderr_tail()
            self.close()
            sig = None
            if rc is not None and rc < 0:
                try:
                    sig = signal.Signals(-rc).name
                except Exception:
                    sig = str(-rc)
            return {"crash": True, "hang": False, "rc": rc, "signal": sig, "stderr": tail}
        try:
            resp = json.loads(line)
        except Exception as e:
            raise HarnessError(f"bad response from worker: {e}: {line[:300]!r}")
        if not resp.get("ok", False):
            raise HarnessError(f"harness error: {resp.get('harness_error')}")
        return resp
