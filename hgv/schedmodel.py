"""Reference model of wake-up requests, replayed over an observed trace.

The model is the property text, not the engine: every node instance owns a set of pending (time, tag) requests.
 * schedule(when, tag): accepted iff when > now (after start) / when >= now (during start); a tagged request
   replaces the pending one with the same tag; un_schedule(tag) / pop(tag) / un_schedule() / reset() cancel.
 * a pending request (T, .) must be honoured by a cycle of the owning graph at exactly T in which the node is
   visited; when that happens all requests <= T are consumed.
The walker reads only: which user code ran when and which scheduler operations it issued (logged by the harness
nodes themselves), the engine's cycle brackets and node visits.
"""
from __future__ import annotations

from hgv.trace import tnum

INF = float("inf")


def snode_equiv(st):
    """the generic-node twin of a static harness node (harness/hv_static.cpp)."""
    if st.get("op") != "snode":
        return st
    k = st["kind"]
    a, b = (st["ins"] + [None])[:2]
    base = {"id": st["id"], "op": "node", "out": "TS[int]", "bias": st.get("bias", 0), "coef": st.get("coef", [1, 1]), "static": k}
    if k == "sum2":
        return dict(base, ins=[a, b], fn="sum")
    if k == "sum2_pb":
        return dict(base, ins=[a, {"r": b, "passive": True}], fn="sum")
    if k == "sum2_ub":
        return dict(base, ins=[a, b], fn="sum", valid=[0])
    if k == "sum2_pub":
        return dict(base, ins=[a, {"r": b, "passive": True}], fn="sum", valid=[0])
    if k == "acc":
        return dict(base, ins=[a], fn="acc", coef=st.get("coef", [1])[:1])
    if k == "timer":
        return dict(base, ins=[a], fn="count", bias=0, sched={"tick": [["s", "rel", st.get("bias", 1), None]]}, tags=[])
    raise ValueError(k)


def label_map(prog):
    """label -> statement for every harness statement of the program (sub-program statements are prefixed)."""
    out = {}

    def walk(stmts, prefix):
        for st in stmts:
            if "id" in st:
                out[prefix + st["id"]] = snode_equiv(st)
    walk(prog["stmts"], "")
    for name, sub in prog.get("subs", {}).items():
        walk(sub["stmts"], name + ".")
    return out


class Pending:
    def __init__(self):
        self.events = set()   # (time, tag) ; tag "" = untagged
        self.tags = {}

    def min(self):
        return min((t for t, _ in self.events), default=None)

    def schedule(self, when, tag, now, started):
        if started:
            if when <= now:
                return False
        elif when < now:
            return False
        tag = tag or ""
        replaced = None
        if tag:
            if tag in self.tags:
                replaced = self.tags[tag]
                self.events.discard((self.tags[tag], tag))
            self.tags[tag] = when
        self.events.add((when, tag))
        return True

    def un_schedule(self, tag):
        if tag is None:
            if not self.events:
                return
            ev = min(self.events)
            self.events.discard(ev)
            self.tags.pop(ev[1], None)
        elif tag in self.tags:
            self.events.discard((self.tags[tag], tag))
            del self.tags[tag]

    def pop(self, tag):
        if tag in self.tags:
            when = self.tags.pop(tag)
            self.events.discard((when, tag))
            return when
        return -1

    def reset(self):
        self.events.clear()
        self.tags.clear()

    def advance(self, now):
        for ev in [e for e in self.events if e[0] <= now]:
            self.events.discard(ev)
            if ev[1]:
                self.tags.pop(ev[1], None)

    def query(self, now, tags):
        m = self.min()
        return [m if m is not None else -1, bool(self.events), m == now,
                {tg: [tg in self.tags, self.tags.get(tg, -1), self.tags.get(tg) == now] for tg in tags}]


class Walk:
    """Replays a trace against the pending-request model and collects violations + facts."""

    def __init__(self, prog, resp, check_queries=True):
        self.prog = prog
        self.error = resp.get("error")
        self._labels = label_map(prog)
        self.trace = resp["trace"]
        self.graph = resp.get("graph") or {}
        self.start = prog.get("start", 0)
        self.end = prog.get("end", None)
        self.check_queries = check_queries
        self.pending = {}        # (gid, idx) -> Pending
        self.label_of = {}       # (gid, idx) -> label
        self.requested = set()   # every accepted request time ever (for "no spurious cycle")
        self.viol = []           # (clause, msg, features)
        self.facts = {"requests": 0, "ignored": 0, "cancelled": 0, "resched_earlier": 0, "shared_time": 0, "nested_requests": 0,
                      "start_requests": 0, "consecutive": 0, "tag_replaced": 0, "input_evals_while_pending": 0}
        self.root_cycles = []
        self.graph_cycle_t = {}  # gid -> current cycle time
        self.sn = {}             # (gid, idx) -> scheduled_now at visit
        self.base = {}           # (gid, idx) -> base time for relative src scripts
        self.req_by_time = {}    # time -> set of instances (for shared_time)
        self.query_mismatch = 0
        self.wall_nodes = set()
        self.fb_sinks = set()
        for st in prog["stmts"]:
            if st.get("op") == "fb_bind":
                self.fb_sinks.add(st.get("id", "fbsink"))
        for name, sub in prog.get("subs", {}).items():
            for st in sub["stmts"]:
                if st.get("op") == "fb_bind":
                    self.fb_sinks.add(name + "." + st.get("id", "fbsink"))

    def stmt_of(self, label):
        st = self._labels.get(label)
        if st is None and label.count(".") >= 2:
            st = self._labels.get(".".join(label.split(".")[-2:]))
        return st

    def v(self, clause, msg, **features):
        self.viol.append((clause, msg, features))

    def P(self, key):
        p = self.pending.get(key)
        if p is None:
            p = self.pending[key] = Pending()
        return p

    def _request(self, key, when, tag, now, started):
        p = self.P(key)
        prev_min = p.min()
        had_tag = bool(tag) and tag in p.tags
        ok = p.schedule(when, tag, now, started)
        if not ok:
            self.facts["ignored"] += 1
            return
        self.facts["requests"] += 1
        if had_tag:
            self.facts["tag_replaced"] += 1
            self.facts["cancelled"] += 1
        if not started:
            self.facts["start_requests"] += 1
        if prev_min is not None and when < prev_min:
            self.facts["resched_earlier"] += 1
        if when == now + 1:
            self.facts["consecutive"] += 1
        if key[0] != "r":
            self.facts["nested_requests"] += 1
        self.requested.add(when)
        s = self.req_by_time.setdefault(when, set())
        s.add(key)
        if len(s) == 2:
            self.facts["shared_time"] += 1

    def _apply_ops(self, key, ops, now, started, tags):
        p = self.P(key)
        for op in ops:
            if key in self.wall_nodes:
                return
            k = op[0]
            q = op[-1]
            if k == "s":
                mode, n, tag = op[1], op[2], op[3]
                if mode.startswith("wall"):
                    # wall-clock alarms: the requested engine time depends on the host clock; the owner is taken out of
                    # the exact model (C17 checks alarms with an inequality instead)
                    self.wall_nodes.add(key)
                    p.reset()
                    continue
                when = now + n if mode == "rel" else n
                self._request(key, when, tag, now, started)
            elif k == "u":
                before = len(p.events)
                p.un_schedule(op[1])
                if len(p.events) < before:
                    self.facts["cancelled"] += 1
            elif k == "pop":
                before = len(p.events)
                exp = p.pop(op[1])
                if len(p.events) < before:
                    self.facts["cancelled"] += 1
                if self.check_queries and op[2] != exp:
                    self.v("query_disagrees", f"pop_tag({op[1]}) returned {op[2]} but the pending set says {exp} at t={now} node={self.label_of.get(key)}", query="pop")
            elif k == "reset":
                self.facts["cancelled"] += len(p.events)
                p.reset()
            if self.check_queries:
                exp = p.query(now, tags)
                if q != exp:
                    self.query_mismatch += 1
                    which = "nst" if q[0] != exp[0] else "is_scheduled" if q[1] != exp[1] else "is_scheduled_now" if q[2] != exp[2] else "tags"
                    self.v("query_disagrees", f"after {op[:-1]} at t={now} node={self.label_of.get(key)} scheduler answered {q}, pending set says {exp}", query=which)

    def run(self):
        start, end = self.start, self.end
        alive_graphs = set()
        last_root_t = None
        for pos, e in enumerate(self.trace):
            k = e[0]
            if k == "us":
                key = (e[1], e[2])
                self.label_of[key] = e[3]
                st = self.stmt_of(e[3])
                now = e[4]
                if st is not None and st.get("op") == "src":
                    base = now if st.get("rel") else 0
                    self.base[key] = base
                    times = sorted(x[0] for x in st.get("script", []))
                    nxt = next((x + base for x in times if x + base >= now), None)
                    if nxt is not None:
                        self._request(key, nxt, None, now, False)
                elif st is not None and st.get("op") == "node":
                    if len(e) > 5:
                        self._apply_ops(key, e[5], now, False, st.get("tags", []))
                    if st.get("schedule_on_start"):
                        self.requested.add(now)
            elif k == "gs" and len(e) == 2 and isinstance(e[1], str) and e[1] != "r":
                # a freshly started child graph samples its boundary inputs: its consumers are scheduled for the start
                # cycle (documented "sampled" start semantics) - an engine-made request for `now`
                self.requested.add(self.root_cycles[-1] if self.root_cycles else start)
            elif k == "nS":
                st = self.stmt_of(e[3])
                if st is not None and st.get("op") == "fb" and "init" in st:
                    now = self.root_cycles[-1] if self.root_cycles else start
                    self.requested.add(now)
            elif k == "gE":
                gid, t = e[1], e[2]
                self.graph_cycle_t[gid] = t
                if gid == "r":
                    if last_root_t is not None and not (t > last_root_t):
                        self.v("time_not_increasing", f"root cycle at t={t} after cycle at t={last_root_t}")
                    if t < start or (end is not None and t >= end):
                        self.v("cycle_outside_window", f"root cycle at t={t} outside [{start},{end})")
                    # nothing pending may have been skipped over
                    for key, p in self.pending.items():
                        m = p.min()
                        if m is not None and m < t:
                            self.v("missed_wakeup", f"node {self.label_of.get(key)} in {key[0]} asked for t={m} but the next cycle is t={t}", where="root" if key[0] == "r" else "nested")
                            p.advance(t - 1)
                    justified = t in self.requested or any(p.min() == t for p in self.pending.values())
                    if not justified:
                        self.v("spurious_cycle", f"root cycle at t={t} for which nothing was requested (requested so far: {sorted(x for x in self.requested if x >= t - 3 and x <= t + 3)})")
                    last_root_t = t
                    self.root_cycles.append(t)
                else:
                    # nested child: never earlier than its parent's current time
                    parent = gid.rsplit("/", 1)[0]
                    pt = self.graph_cycle_t.get(parent)
                    if pt is not None and t < pt:
                        self.v("child_before_parent", f"child graph {gid} evaluated at t={t} while parent {parent} is at t={pt}")
            elif k == "nE":
                key = (e[1], e[2])
                t = self.graph_cycle_t.get(e[1])
                p = self.pending.get(key)
                self.sn[key] = p is not None and p.min() == t
                if p is not None and p.events and p.min() != t:
                    self.facts["input_evals_while_pending"] += 1
                lbl = None
                nodes = self.graph.get("nodes", []) if e[1] == "r" else None
                if nodes is not None and e[2] < len(nodes):
                    lbl = nodes[e[2]].get("l")
                if lbl in self.fb_sinks and t is not None:
                    self.requested.add(t + 1)
            elif k == "ev":
                key = (e[1], e[2])
                self.label_of[key] = e[3]
                now = e[4]
                st = self.stmt_of(e[3])
                if st is None:
                    continue
                if st.get("op") == "src":
                    base = self.base.get(key, 0)
                    times = sorted(x[0] for x in st.get("script", []))
                    nxt = next((x + base for x in times if x + base > now), None)
                    if nxt is not None:
                        self._request(key, nxt, None, now, True)
                elif st.get("op") == "node" and len(e) > 7:
                    x = e[7]
                    tags = st.get("tags", [])
                    if "q0" in x and self.check_queries and key not in self.wall_nodes:
                        exp = self.P(key).query(now, tags)
                        if x["q0"] != exp:
                            which = "nst" if x["q0"][0] != exp[0] else "is_scheduled" if x["q0"][1] != exp[1] else "is_scheduled_now" if x["q0"][2] != exp[2] else "tags"
                            self.v("query_disagrees", f"on entry at t={now} node={e[3]} scheduler answered {x['q0']}, pending set says {exp}", query=which)
                    if "sq" in x:
                        self._apply_ops(key, x["sq"], now, True, tags)
            elif k == "ne":
                key = (e[1], e[2])
                t = self.graph_cycle_t.get(e[1])
                if self.sn.get(key) and key in self.pending and t is not None:
                    self.pending[key].advance(t)
            elif k == "ge":
                gid, t, nst = e[1], e[2], e[3]
                if gid == "r":
                    # every request due at t must have been consumed by a visit in this cycle
                    for key, p in self.pending.items():
                        m = p.min()
                        if m is not None and m <= t:
                            self.v("wakeup_not_delivered", f"node {self.label_of.get(key)} in {key[0]} had a request for t={m} but was not visited in the cycle at t={t}", where="root" if key[0] == "r" else "nested")
                            p.advance(t)
                    mins = [p.min() for p in self.pending.values() if p.min() is not None]
                    model_min = min(mins) if mins else None
                    n = tnum(nst)
                    if n <= t:
                        self.v("next_time_not_future", f"after cycle t={t} next_scheduled_time={nst}")
                    elif model_min is not None and n > model_min:
                        self.v("next_time_too_late", f"after cycle t={t} next_scheduled_time={nst} but a request for t={model_min} is pending")
                    elif n != INF and (model_min is None or n < model_min) and nst not in self.requested:
                        self.v("next_time_unrequested", f"after cycle t={t} next_scheduled_time={nst}, earliest pending request {model_min}, and nobody ever asked for {nst}")
            elif k == "gP" and e[1] == "r":
                self._end_check()
            elif k in ("gp", "gsf"):
                gid = e[1]
                for key in [kk for kk in self.pending if kk[0] == gid or kk[0].startswith(gid + "/")]:
                    del self.pending[key]
            elif k == "np":
                self.pending.pop((e[1], e[2]), None)
            elif k == "phase" and e[1] == "run_returned":
                break
        return self

    def _end_check(self):
        """When the run stops normally: nothing requested inside the window may be left undelivered."""
        if self.error is None and self.end is not None:
            for key, p in self.pending.items():
                m = p.min()
                if m is not None and m < self.end:
                    self.v("missed_wakeup", f"node {self.label_of.get(key)} in {key[0]} asked for t={m} (< end {self.end}) but the run ended without that cycle", where="root" if key[0] == "r" else "nested")
