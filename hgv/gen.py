"""Hypothesis strategies that *construct* well-formed harness programs (no filtering)."""
from __future__ import annotations

from hypothesis import strategies as st

TAGS = ["a", "b", "c"]


@st.composite
def time_set(draw, lo, hi, min_size=0, max_size=8):
    """sorted distinct times in [lo, hi], biased to runs of consecutive smallest steps."""
    if hi < lo:
        return []
    n = draw(st.integers(min_size, max_size))
    out = set()
    while len(out) < n:
        t = draw(st.integers(lo, hi))
        out.add(t)
        if draw(st.integers(0, 3)) == 0:
            run = draw(st.integers(1, 3))
            for k in range(1, run + 1):
                if t + k <= hi and len(out) < n:
                    out.add(t + k)
        if len(out) >= hi - lo + 1:
            break
    return sorted(out)


@st.composite
def int_script(draw, lo, hi, max_size=8, min_size=0):
    times = draw(time_set(lo, hi, min_size, max_size))
    return [[t, [{"k": "set", "v": draw(st.integers(-5, 20))}]] for t in times]


@st.composite
def sched_op(draw, horizon, tags=TAGS, allow_past=True):
    k = draw(st.sampled_from(["s", "s", "s", "s", "u", "pop", "reset", "q", "ut"]))
    if k == "s":
        mode = draw(st.sampled_from(["rel", "rel", "abs"]))
        tag = draw(st.sampled_from([None, None] + tags))
        if mode == "rel":
            n = draw(st.integers(0 if allow_past else 1, max(1, horizon))) if draw(st.integers(0, 5)) else draw(st.integers(-2, 1))
        else:
            n = draw(st.integers(0, max(1, horizon)))
        return ["s", mode, n, tag]
    if k == "u":
        return ["u", None]
    if k == "ut":
        return ["u", draw(st.sampled_from(tags))]
    if k == "pop":
        return ["pop", draw(st.sampled_from(tags))]
    if k == "reset":
        return ["reset"]
    return ["q"]


@st.composite
def sched_script(draw, horizon, start, max_ops=3, tags=TAGS):
    """{"start":[...], "ord":{k:[...]}, "tick":[...], "time":{t:[...]}}"""
    s = {}
    if draw(st.booleans()):
        ops = draw(st.lists(sched_op(horizon, tags), min_size=1, max_size=max_ops))
        # during start a request for exactly `now` is legal and honoured
        s["start"] = ops
    if draw(st.booleans()):
        s["tick"] = draw(st.lists(sched_op(min(horizon, 6), tags), min_size=1, max_size=max_ops))
    n_ord = draw(st.integers(0, 3))
    if n_ord:
        s["ord"] = {str(draw(st.integers(0, 5))): draw(st.lists(sched_op(horizon, tags), min_size=1, max_size=max_ops)) for _ in range(n_ord)}
    if draw(st.integers(0, 3)) == 0:
        s["time"] = {str(start + draw(st.integers(0, horizon))): draw(st.lists(sched_op(horizon, tags), min_size=1, max_size=max_ops))}
    return s


def rebase_sched(script, start):
    """absolute times in generated ops are offsets from the window start: shift them."""
    def fix(ops):
        return [(["s", "abs", op[2] + start, op[3]] if op[0] == "s" and op[1] == "abs" else op) for op in ops]
    out = {}
    for k, v in script.items():
        if k in ("start", "tick", "every"):
            out[k] = fix(v)
        else:
            out[k] = {kk: fix(vv) for kk, vv in v.items()}
    return out


# ------------------------------------------------------------------------------------------------ dataflow programs
def refs_of(stmt):
    """ids of statements in the same scope that `stmt` reads (for ordering)."""
    out = []

    def ref(r):
        if isinstance(r, str):
            out.append(r)
        elif isinstance(r, dict) and "r" in r:
            out.append(r["r"])
    for r in stmt.get("ins", []):
        ref(r)
    for k in ("src", "fb", "of", "node", "on"):
        if k in stmt:
            ref(stmt[k])
    if stmt.get("op") == "bind":
        out.append(stmt["d"])
    if stmt.get("op") == "op":
        for a in stmt.get("args", []):
            if "ts" in a:
                ref(a["ts"])
    return out


def topo_order(stmts, priority):
    """a topological order of `stmts` (deps first) choosing, among ready statements, the one with the smallest
    priority value; `priority` is a list of numbers, one per statement."""
    ids = {s["id"]: i for i, s in enumerate(stmts) if "id" in s}
    deps = []
    for s in stmts:
        deps.append({ids[r] for r in refs_of(s) if r in ids})
    done, order = set(), []
    n = len(stmts)
    while len(order) < n:
        ready = [i for i in range(n) if i not in done and deps[i] <= done]
        if not ready:
            raise ValueError("cycle in statement dependencies")
        i = min(ready, key=lambda k: priority[k])
        done.add(i)
        order.append(i)
    return [stmts[i] for i in order]


@st.composite
def permuted(draw, stmts):
    pr = draw(st.permutations(list(range(len(stmts)))))
    return topo_order(stmts, pr)


@st.composite
def dataflow(draw, start, horizon, max_src=3, max_nodes=7, structs=True, subs=True, delayed=True, max_depth=2, big=False):
    """A random DAG over scripted sources and logging compute nodes. Returns (prog, info) where info lists, for the
    oracle, who reads whom: info["reads"] = [(consumer_label, input_index, producer_label)] for plain TS[int] edges."""
    end = start + horizon
    stmts, subsd = [], {}
    ports = {}      # id -> schema
    n_src = draw(st.integers(1, max_src))
    # sources tick in overlapping subsets: draw a small pool of times and let each source take a subset
    pool = draw(time_set(start, end - 1, 1, 8 if big else 5))
    for i in range(n_src):
        times = [t for t in pool if draw(st.integers(0, 2)) != 0] or [pool[0]]
        stmts.append({"id": f"s{i}", "op": "src", "schema": "TS[int]",
                      "script": [[t, [{"k": "set", "v": draw(st.integers(-9, 9))}]] for t in times]})
        ports[f"s{i}"] = "TS[int]"
    n_nodes = draw(st.integers(1, max_nodes))
    for i in range(n_nodes):
        kind = draw(st.sampled_from(["node"] * 6 + (["struct"] if structs else []) + (["sub"] * 2 if subs else [])))
        int_ports = [p for p, s in ports.items() if s == "TS[int]"]
        if kind == "node":
            cand = list(ports)
            nin = draw(st.integers(1, min(3, len(cand))))
            ins = [draw(st.sampled_from(cand)) for _ in range(nin)]
            if nin >= 2 and draw(st.integers(0, 5)) == 0:
                # one input (never the only active one) read passively: its producer must still be ranked before this node
                j_ = draw(st.integers(1, nin - 1))
                ins[j_] = {"r": ins[j_], "passive": True}
            stmts.append({"id": f"n{i}", "op": "node", "ins": ins, "out": "TS[int]", "fn": draw(st.sampled_from(["sum", "sum", "acc"])),
                          "coef": [draw(st.integers(1, 3)) for _ in ins], "bias": draw(st.integers(0, 5))})
            ports[f"n{i}"] = "TS[int]"
        elif kind == "struct":
            k = draw(st.integers(1, 3))
            ins = [draw(st.sampled_from(int_ports)) for _ in range(k)]
            if draw(st.booleans()):
                schema = f"TSL[TS[int],{k}]"
            else:
                schema = "TSB[" + ",".join(f"f{j}:TS[int]" for j in range(k)) + "]"
            stmts.append({"id": f"n{i}", "op": "struct", "schema": schema, "ins": ins})
            ports[f"n{i}"] = schema
        else:
            # sub-program: 1-2 int params, a small internal DAG, inlined or nested to some depth
            npar = draw(st.integers(1, 2))
            body, bports = [], [{"arg": j} for j in range(npar)]
            for j in range(draw(st.integers(1, 3))):
                nin = draw(st.integers(1, min(2, len(bports))))
                bins = [draw(st.sampled_from(bports)) for _ in range(nin)]
                body.append({"id": f"b{j}", "op": "node", "ins": bins, "out": "TS[int]", "fn": draw(st.sampled_from(["sum", "acc"])),
                             "coef": [draw(st.integers(1, 3)) for _ in bins], "bias": draw(st.integers(0, 5))})
                bports.append(f"b{j}")
            name = f"g{i}"
            subsd[name] = {"params": ["TS[int]"] * npar, "out": "TS[int]", "stmts": body, "ret": f"b{len(body) - 1}"}
            depth = draw(st.integers(0, max_depth))
            top = name
            for d in range(1, depth):
                wn = f"{name}w{d}"
                subsd[wn] = {"params": ["TS[int]"] * npar, "out": "TS[int]",
                             "stmts": [{"id": "inner", "op": "nested", "sub": top, "ins": [{"arg": j} for j in range(npar)]}], "ret": "inner"}
                top = wn
            ins = [draw(st.sampled_from(int_ports)) for _ in range(npar)]
            stmts.append({"id": f"n{i}", "op": "inline" if depth == 0 else "nested", "sub": top, "ins": ins})
            ports[f"n{i}"] = "TS[int]"
    # recorder sinks on a few ports
    int_ports = [p for p, s in ports.items() if s == "TS[int]"]
    for j in range(draw(st.integers(1, 2))):
        stmts.append({"id": f"r{j}", "op": "node", "ins": [draw(st.sampled_from(list(ports)))], "deep": True})
    # explicit rank dependency between two unrelated compute nodes
    # delayed bindings: rewire some consumer inputs through a delayed port so the consumer can be wired first
    if delayed:
        k = 0
        for s in list(stmts):
            if s["op"] == "node" and s.get("ins") and draw(st.integers(0, 5)) == 0:
                j = draw(st.integers(0, len(s["ins"]) - 1))
                src = s["ins"][j]
                if isinstance(src, str) and ports.get(src):
                    did = f"d{k}"
                    k += 1
                    stmts.append({"id": did, "op": "delayed", "schema": ports[src]})
                    stmts.append({"id": did + "b", "op": "bind", "d": did, "src": src})
                    s["ins"] = list(s["ins"])
                    s["ins"][j] = did
    prog = {"start": start, "end": end, "stmts": stmts}
    if subsd:
        prog["subs"] = subsd
    return prog
