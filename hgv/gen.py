"""Hypothesis strategies that *construct* well-formed harness programs (no filtering)."""
from __future__ import annotations

from hypothesis import strategies as st

TAGS = ["a", "b", "c"]


@st.composite
def time_set(draw, lo, hi, min_size=0, max_size=8):
    """sorted distinct times in [lo, hi], biased to runs of consecutive smallest steps."""
    if hi < lo:
        return []
    n = draw(st.integers(min_size, max_size))
    out = set()
    while len(out) < n:
        t = draw(st.integers(lo, hi))
        out.add(t)
        if draw(st.integers(0, 3)) == 0:
            run = draw(st.integers(1, 3))
            for k in range(1, run + 1):
                if t + k <= hi and len(out) < n:
                    out.add(t + k)
        if len(out) >= hi - lo + 1:
            break
    return sorted(out)


@st.composite
def int_script(draw, lo, hi, max_size=8, min_size=0):
    times = draw(time_set(lo, hi, min_size, max_size))
    return [[t, [{"k": "set", "v": draw(st.integers(-5, 20))}]] for t in times]


@st.composite
def sched_op(draw, horizon, tags=TAGS, allow_past=True):
    k = draw(st.sampled_from(["s", "s", "s", "s", "u", "pop", "reset", "q", "ut"]))
    if k == "s":
        mode = draw(st.sampled_from(["rel", "rel", "abs"]))
        tag = draw(st.sampled_from([None, None] + tags))
        if mode == "rel":
            n = draw(st.integers(0 if allow_past else 1, max(1, horizon))) if draw(st.integers(0, 5)) else draw(st.integers(-2, 1))
        else:
            n = draw(st.integers(0, max(1, horizon)))
        return ["s", mode, n, tag]
    if k == "u":
        return ["u", None]
    if k == "ut":
        return ["u", draw(st.sampled_from(tags))]
    if k == "pop":
        return ["pop", draw(st.sampled_from(tags))]
    if k == "reset":
        return ["reset"]
    return ["q"]


@st.composite
def sched_script(draw, horizon, start, max_ops=3, tags=TAGS):
    """{"start":[...], "ord":{k:[...]}, "tick":[...], "time":{t:[...]}}"""
    s = {}
    if draw(st.booleans()):
        ops = draw(st.lists(sched_op(horizon, tags), min_size=1, max_size=max_ops))
        # during start a request for exactly `now` is legal and honoured
        s["start"] = ops
    if draw(st.booleans()):
        s["tick"] = draw(st.lists(sched_op(min(horizon, 6), tags), min_size=1, max_size=max_ops))
    n_ord = draw(st.integers(0, 3))
    if n_ord:
        s["ord"] = {str(draw(st.integers(0, 5))): draw(st.lists(sched_op(horizon, tags), min_size=1, max_size=max_ops)) for _ in range(n_ord)}
    if draw(st.integers(0, 3)) == 0:
        s["time"] = {str(start + draw(st.integers(0, horizon))): draw(st.lists(sched_op(horizon, tags), min_size=1, max_size=max_ops))}
    return s


def rebase_sched(script, start):
    """absolute times in generated ops are offsets from the window start: shift them."""
    def fix(ops):
        return [(["s", "abs", op[2] + start, op[3]] if op[0] == "s" and op[1] == "abs" else op) for op in ops]
    out = {}
    for k, v in script.items():
        if k in ("start", "tick", "every"):
            out[k] = fix(v)
        else:
            out[k] = {kk: fix(vv) for kk, vv in v.items()}
    return out
