"""Reference model: a small discrete-event interpreter of the *harness vocabulary only*, transcribing the rules the
properties state (C03 activation/validity, C08 feedback delay). It is deliberately naive:

 * a cycle happens at exactly the requested times (source script times, pending node wake-ups, feedback deliveries);
 * within a cycle statements are processed in creation order (a valid dependency order by construction);
 * a node's user code runs iff it is started and (an ACTIVE input was written this cycle, or a wake-up of its own is due
   - via its scheduler, a request made during start, or schedule_on_start) and every REQUIRED input is valid;
 * an output written at t is valid from then on, modified exactly at t; feedback delivers at t+1.
The arithmetic of each harness node is mine on both sides (hv_nodes.cpp), so any disagreement with the engine is about
activation, validity, ordering or timing.
"""
from __future__ import annotations

import json

from hgv.schedmodel import Pending, snode_equiv

NEVER = -1


def fnv_contrib(value) -> int:
    s = json.dumps(value, separators=(",", ":"))
    h = 1469598103934665603
    for c in s.encode():
        h ^= c
        h = (h * 1099511628211) & 0xFFFFFFFFFFFFFFFF
    return h % 1000003


class Port:
    __slots__ = ("valid", "lmt", "value", "kind", "children")

    def __init__(self, kind="ts", children=None):
        self.valid, self.lmt, self.value, self.kind, self.children = False, NEVER, None, kind, children

    # views -------------------------------------------------------------------------------------------------
    def is_valid(self):
        if self.kind == "ts":
            return self.valid
        return any(c.is_valid() for c in self.children)

    def all_valid(self):
        if self.kind == "ts":
            return self.valid
        return all(c.all_valid() for c in self.children)

    def modified(self, t):
        if self.kind == "ts":
            return self.lmt == t
        return any(c.modified(t) for c in self.children)

    def last_modified(self):
        if self.kind == "ts":
            return self.lmt
        return max(c.last_modified() for c in self.children)

    def val(self):
        if self.kind == "ts":
            return self.value if self.valid else None
        if self.kind == "tsb":
            return {f"f{i}": c.val() for i, c in enumerate(self.children)}
        return [c.val() for c in self.children]

    def write(self, t, v):
        self.valid, self.lmt, self.value = True, t, v


class Model:
    def __init__(self, prog, emulate_stale_wakeups=False):
        # emulate_stale_wakeups reproduces known finding F1 (a cancelled wake-up still evaluates the node because the
        # graph's per-node slot is never retracted) so that the search can continue past it; the strict model is the
        # statement.
        self.emulate = emulate_stale_wakeups
        self.slot = {}
        self.prog = prog
        self.start = prog.get("start", 0)
        self.end = prog["end"]
        self.ports = {}
        self.nodes = []      # statements of op node/src in creation order
        self.pending = {}    # id -> Pending
        self.state = {}      # id -> {"ord":0,"sum":0}
        self.fb = {}         # fb id -> {"init":..., "queue":[(t_deliver, value)]}
        self.fb_bind = []    # (fb id, src id)
        self.evals = {}      # label -> [(t, ins, out)]
        self.cycles = []
        self.passive = {}    # node id -> set of passive input indices
        self.dyn_active = {}  # node id -> current set of active input indices (run-time make_passive / make_active)
        self.active_log = {}  # node id -> [(t, active indices after the evaluation's toggles)]
        for st in prog["stmts"]:
            st = snode_equiv(st)
            op = st["op"]
            if op == "src":
                self.ports[st["id"]] = Port()
                self.nodes.append(st)
                self.state[st["id"]] = {"script": {t: ops for t, ops in st["script"]}}
            elif op == "node":
                self.nodes.append(st)
                if "out" in st:
                    self.ports[st["id"]] = Port()
                self.pending[st["id"]] = Pending()
                self.state[st["id"]] = {"ord": 0, "sum": 0}
                self.evals[st["id"]] = []
            elif op == "struct":
                kind = "tsb" if st["schema"].startswith("TSB") else "tsl"
                self.ports[st["id"]] = Port(kind, [self.port_of(r) for r in st["ins"]])
            elif op == "fb":
                self.ports[st["id"]] = Port()
                self.fb[st["id"]] = {"init": st.get("init"), "queue": []}
            elif op == "fb_bind":
                self.fb_bind.append((st["fb"] if isinstance(st["fb"], str) else st["fb"]["r"], st["src"] if isinstance(st["src"], str) else st["src"]["r"]))
            else:
                raise ValueError(f"model: unsupported statement {op}")

    def port_of(self, ref):
        if isinstance(ref, str):
            return self.ports[ref]
        return self.ports[ref["r"]]

    @staticmethod
    def is_passive_ref(ref):
        return isinstance(ref, dict) and ref.get("passive", False)

    def contribution(self, st, k, port):
        if port.kind == "ts":
            v = port.val()
            return (1 if v else 0) if isinstance(v, bool) else v
        return fnv_contrib(port.val())

    def run(self):
        start, end = self.start, self.end
        # --- start phase
        for st in self.nodes:
            if st["op"] == "src":
                pass
            elif st["op"] == "node":
                ops = (st.get("sched") or {}).get("start")
                if ops:
                    self.apply_ops(st, ops, start, False)
        t = None
        first = True
        while True:
            cand = []
            for st in self.nodes:
                if st["op"] == "src":
                    nxt = [x for x in self.state[st["id"]]["script"] if (x >= start if first else x > t)]
                    if nxt:
                        cand.append(min(nxt))
                else:
                    m = self.pending[st["id"]].min()
                    if m is not None:
                        cand.append(m)
                    if first and st.get("schedule_on_start"):
                        cand.append(start)
            if self.emulate:
                for sid, sl in self.slot.items():
                    if sl is not None and (sl >= start if first else sl > t):
                        cand.append(sl)
            for fid, f in self.fb.items():
                if first and f["init"] is not None:
                    cand.append(start)
                if f["queue"]:
                    cand.append(f["queue"][0][0])
            if not cand:
                break
            nt = min(cand)
            if nt >= end:
                break
            if len(self.cycles) > 5000:
                raise RuntimeError("model: runaway")
            t = nt
            self.cycle(t, first)
            first = False
        return self

    def slot_push(self, sid, when, current):
        sl = self.slot.get(sid)
        if sl is None or sl <= current or when < sl:
            self.slot[sid] = when

    def apply_ops(self, st, ops, now, started):
        p = self.pending[st["id"]]
        for op in ops:
            k = op[0]
            if k == "s":
                when = now + op[2] if op[1] == "rel" else op[2]
                evs = set(p.events)
                if op[3] and op[3] in p.tags:
                    evs.discard((p.tags[op[3]], op[3]))   # a replaced tagged event is erased before the comparison
                prev = min((x for x, _ in evs), default=None)
                if p.schedule(when, op[3], now, started):
                    nm = p.min()
                    if prev is None or nm < prev:
                        self.slot_push(st["id"], nm, now if started else now - 1)
            elif k == "u":
                p.un_schedule(op[1])
            elif k == "pop":
                p.pop(op[1])
            elif k == "reset":
                p.reset()

    def cycle(self, t, first):
        self.cycles.append(t)
        # feedback sources deliver first (they are ranked before their readers)
        for fid, f in self.fb.items():
            if first and f["init"] is not None and t == self.start:
                self.ports[fid].write(t, f["init"])
            while f["queue"] and f["queue"][0][0] == t:
                self.ports[fid].write(t, f["queue"].pop(0)[1])
        for st in self.nodes:
            sid = st["id"]
            if st["op"] == "src":
                ops = self.state[sid]["script"].get(t)
                if ops is not None:
                    for op in ops:
                        if op["k"] == "set":
                            self.ports[sid].write(t, op["v"])
                continue
            ins = [self.port_of(r) for r in st.get("ins", [])]
            n = len(ins)
            active = self.dyn_active.get(sid)
            if active is None:
                active = st.get("active")
                active = set(range(n)) if active is None else set(active)
                active -= {k for k, r in enumerate(st.get("ins", [])) if self.is_passive_ref(r)}
                self.dyn_active[sid] = active
            p = self.pending[sid]
            sn = p.min() == t
            woken = sn or (first and st.get("schedule_on_start") and t == self.start)
            if self.emulate and self.slot.get(sid) == t:
                woken = True
            ticked = any(ins[k].modified(t) for k in active)
            if not (woken or ticked):
                continue
            self.slot[sid] = t  # the engine's per-node slot holds `now` while the node is being visited
            req = st.get("valid")
            req = range(n) if req is None else req
            ready = all(ins[k].is_valid() for k in req) and all(ins[k].all_valid() for k in st.get("all_valid", []))
            if ready:
                self.user_eval(st, ins, t, sn)
            if sn:
                p.advance(t)
            if p.events:
                self.slot_push(sid, p.min(), t)
        # feedback sinks capture what was written this cycle
        for fid, src in self.fb_bind:
            sp = self.ports[src]
            if sp.modified(t):
                self.fb[fid]["queue"].append((t + 1, sp.val()))

    def user_eval(self, st, ins, t, sn):
        sid = st["id"]
        s = self.state[sid]
        ordn = s["ord"]
        s["ord"] += 1
        x = st.get("bias", 0)
        coef = st.get("coef", [])
        any_mod = False
        snap = []
        for k, port in enumerate(ins):
            v, m = port.is_valid(), port.modified(t)
            any_mod = any_mod or m
            snap.append((v, m, port.val() if v else None))
            if v:
                x += (coef[k] if k < len(coef) else 1) * self.contribution(st, k, port)
        sched = st.get("sched")
        if sched is not None:
            ops = (sched.get("ord") or {}).get(str(ordn))
            if ops:
                self.apply_ops(st, ops, t, True)
            ops = (sched.get("time") or {}).get(str(t))
            if ops:
                self.apply_ops(st, ops, t, True)
            if any_mod and sched.get("tick"):
                self.apply_ops(st, sched["tick"], t, True)
            if sched.get("every"):
                self.apply_ops(st, sched["every"], t, True)
        fn = st.get("fn", "sum")
        if fn == "acc":
            s["sum"] += x
            x = s["sum"]
        elif fn == "count":
            x = ordn + 1
        out = None
        if "out" in st:
            emit = st.get("emit", "always")
            if emit == "always" or (emit == "sched_now" and sn) or (emit == "tick" and any_mod):
                self.ports[sid].write(t, x)
                out = x
        # run-time make_passive() / make_active() on an input, issued at the end of this evaluation: effective from the next cycle
        for k, how in (st.get("toggle") or {}).get(str(ordn), []):
            (self.dyn_active[sid].discard if how == "p" else self.dyn_active[sid].add)(k)
        self.evals[sid].append((t, snap, out))
        if st.get("toggle"):
            self.active_log.setdefault(sid, []).append((t, sorted(self.dyn_active[sid])))
