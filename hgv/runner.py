"""Sharded property runner: Hypothesis generation -> native worker -> oracle; evidence, replay files, known findings."""
from __future__ import annotations

import hashlib
import importlib
import json
import multiprocessing as mp
import os
import sys
import time
import traceback
from dataclasses import dataclass, field
from pathlib import Path

VERIF = Path(__file__).resolve().parent.parent
sys.path.insert(0, str(VERIF))
if (VERIF / ".deps").exists():
    sys.path.insert(0, str(VERIF / ".deps"))

from hgv.worker import HarnessError, Rejected, Worker  # noqa: E402


@dataclass
class Viol:
    clause: str            # oracle clause id, e.g. "missed_wakeup"
    msg: str               # human readable
    features: dict = field(default_factory=dict)  # discriminating features for known-finding matching

    def to_json(self):
        return {"clause": self.clause, "msg": self.msg, "features": self.features}


@dataclass
class Result:
    violations: list = field(default_factory=list)
    nontrivial: bool = False
    labels: list = field(default_factory=list)
    engine_runs: int = 0
    summary: object = None  # small digest of what was observed (for samples)


class Ctx:
    """Handed to a property's check(): access to the worker + counters."""

    def __init__(self, worker: Worker, tier: str):
        self.worker = worker
        self.tier = tier
        self.engine_runs = 0

    def request(self, req: dict, timeout: float | None = None) -> dict:
        self.engine_runs += 1
        return self.worker.request(req, timeout)

    def run(self, prog: dict, timeout: float | None = None) -> dict:
        resp = self.request({"op": "run", "prog": prog}, timeout)
        err = resp.get("error")
        if err and isinstance(err.get("what"), str) and err["what"].startswith("harness:"):
            raise HarnessError(err["what"])
        return resp


def canon(obj) -> str:
    return json.dumps(obj, sort_keys=True, separators=(",", ":"))


def case_hash(case) -> str:
    return hashlib.sha1(canon(case).encode()).hexdigest()[:20]


# ---------------------------------------------------------------------------------------------- known findings
def load_known(prop_id: str):
    p = VERIF / "known_findings.json"
    if not p.exists():
        return []
    data = json.loads(p.read_text())
    return [f for f in data.get("findings", []) if f.get("property") == prop_id]


def match_known(known, v: Viol):
    for f in known:
        if f.get("clause") != v.clause:
            continue
        feats = f.get("features", {})
        if all(v.features.get(k) == val for k, val in feats.items()):
            return f
    return None


# ---------------------------------------------------------------------------------------------- shard
def _truncate(obj, limit=2500):
    s = canon(obj)
    if len(s) <= limit:
        return obj
    return {"truncated_json": s[:limit] + "..."}


def shard_main(args):
    prop, tier, seed, shard, n_shards, budget_s, variant = args
    os.environ.setdefault("PYTHONHASHSEED", "0")
    import hypothesis
    from hypothesis import HealthCheck, Phase, given, settings

    mod = importlib.import_module(f"props.{prop.lower()}")
    worker = Worker(variant=variant)
    ctx = Ctx(worker, tier)
    known = load_known(prop)
    t0 = time.time()
    deadline = t0 + budget_s
    st = {
        "cases": 0, "engine_runs": 0, "skipped_budget": 0, "nontrivial_hashes": set(), "labels": {}, "samples": [],
        "buckets": {}, "known_hits": {}, "harness_error": None, "rejected": 0, "rejected_msg": None,
    }
    n_examples = max(1, mod.examples(tier) // n_shards)

    def one(case):
        if time.time() > deadline:
            st["skipped_budget"] += 1
            return
        before = ctx.engine_runs
        try:
            res = mod.check(case, ctx)
        except Rejected as e:
            st["rejected"] += 1
            st["rejected_msg"] = str(e)[:300]
            st["engine_runs"] += ctx.engine_runs - before
            return
        st["cases"] += 1
        st["engine_runs"] += ctx.engine_runs - before
        for lb in res.labels:
            st["labels"][lb] = st["labels"].get(lb, 0) + 1
        if res.nontrivial:
            h = case_hash(case)
            if h not in st["nontrivial_hashes"]:
                st["nontrivial_hashes"].add(h)
                if len(st["samples"]) < 3:
                    st["samples"].append({"case": _truncate(case), "observed": _truncate(res.summary, 1200)})
        for v in res.violations:
            f = match_known(known, v)
            if f is not None:
                k = f["id"]
                st["known_hits"][k] = st["known_hits"].get(k, 0) + 1
                continue
            key = v.clause + "|" + canon(v.features)
            size = len(canon(case))
            cur = st["buckets"].get(key)
            if cur is None or size < cur["size"]:
                st["buckets"][key] = {"size": size, "case": case, "viol": v.to_json(), "count": (cur["count"] if cur else 0) + 1}
            else:
                cur["count"] += 1

    strat = mod.strategy(tier)
    hseed = seed * 1000 + shard

    @hypothesis.seed(hseed)
    @settings(max_examples=n_examples, database=None, deadline=None, phases=[Phase.generate],
              suppress_health_check=list(HealthCheck), report_multiple_bugs=False, derandomize=False)
    @given(strat)
    def t(case):
        one(case)

    try:
        t()
        # stateful / extra passes a property may define
        if hasattr(mod, "extra_pass"):
            mod.extra_pass(ctx, tier, hseed, one, deadline)
    except HarnessError as e:
        st["harness_error"] = f"{e}"
    except Exception:
        st["harness_error"] = traceback.format_exc()[-3000:]
    finally:
        worker.close()
    st["nontrivial_hashes"] = sorted(st["nontrivial_hashes"])
    st["wall_s"] = time.time() - t0
    st["worker_requests"] = worker.requests
    st["worker_crashes"] = worker.crashes
    st["seed"] = hseed
    return st


# ---------------------------------------------------------------------------------------------- shrink (thorough)
def shrink_bucket(mod, prop, tier, seed, clause_key, variant, budget_s=240):
    """Re-search with Hypothesis' shrinker for a minimal case violating the same clause."""
    import hypothesis
    from hypothesis import HealthCheck, Phase, given, settings

    worker = Worker(variant=variant)
    ctx = Ctx(worker, tier)
    known = load_known(prop)
    best = {"case": None, "viol": None}
    deadline = time.time() + budget_s

    class Found(Exception):
        pass

    @hypothesis.seed(seed)
    @settings(max_examples=mod.examples(tier), database=None, deadline=None, phases=[Phase.generate, Phase.shrink],
              suppress_health_check=list(HealthCheck), report_multiple_bugs=False)
    @given(mod.strategy(tier))
    def t(case):
        if time.time() > deadline:
            return
        res = mod.check(case, ctx)
        for v in res.violations:
            if match_known(known, v) is None and v.clause + "|" + canon(v.features) == clause_key:
                best["case"], best["viol"] = case, v.to_json()
                raise Found()

    try:
        t()
    except Found:
        pass
    except Exception:
        pass
    finally:
        worker.close()
    return best


# ---------------------------------------------------------------------------------------------- driver
def run_check(prop: str, tier: str, seed: int) -> int:
    t0 = time.time()
    os.environ["PYTHONHASHSEED"] = "0"
    from build import build as bld

    mod = importlib.import_module(f"props.{prop.lower()}")
    # thorough tier of the properties whose anchors list sanitizer reports: run the generated cases against an
    # AddressSanitizer build of the tree (a report aborts the worker -> engine_crash violation with the report text)
    variant = "plain"
    if tier == "thorough" and getattr(mod, "ASAN_THOROUGH", False) and os.environ.get("VERIF_ASAN", "1") != "0":
        variant = "asan"
    variant = os.environ.get("VERIF_VARIANT", variant)
    try:
        info = bld.ensure(variant, verbose=True)
    except SystemExit as e:
        print(f"HARNESS-ERROR property={prop} build failed (exit {e.code})")
        return 2
    n_shards = min(int(os.environ.get("VERIF_SHARDS", "16")), getattr(mod, "MAX_SHARDS", 16))
    budget = mod.budget_s(tier) if hasattr(mod, "budget_s") else (75 if tier == "quick" else 600)
    known = load_known(prop)

    # --- replay tier: saved regression inputs first (seconds)
    corpus_dir = VERIF / "corpus" / prop
    corpus_results = []
    violations = []  # (case, viol_json, origin)
    known_hits = {}
    worker = Worker(variant=variant)
    ctx = Ctx(worker, tier)
    try:
        for f in sorted(corpus_dir.glob("*.json")) if corpus_dir.exists() else []:
            data = json.loads(f.read_text())
            res = mod.check(data["case"], ctx)
            corpus_results.append({"file": f.name, "violations": [v.to_json() for v in res.violations]})
            for v in res.violations:
                kf = match_known(known, v)
                if kf is not None:
                    known_hits[kf["id"]] = known_hits.get(kf["id"], 0) + 1
                else:
                    violations.append((data["case"], v.to_json(), f"corpus:{f.name}"))
    except HarnessError as e:
        print(f"HARNESS-ERROR property={prop} corpus replay: {e}")
        return 2
    finally:
        worker.close()
    corpus_runs = ctx.engine_runs

    # --- generation tier
    args = [(prop, tier, seed, s, n_shards, budget, variant) for s in range(n_shards)]
    with mp.get_context("fork").Pool(n_shards) as pool:
        shards = pool.map(shard_main, args)
    herr = [s["harness_error"] for s in shards if s["harness_error"]]
    if herr:
        print(f"HARNESS-ERROR property={prop}: {herr[0]}")
        return 2
    cases = sum(s["cases"] for s in shards)
    rejected = sum(s["rejected"] for s in shards)
    if rejected > 0.2 * max(1, cases + rejected):
        msg = next((s["rejected_msg"] for s in shards if s["rejected_msg"]), "")
        print(f"HARNESS-ERROR property={prop}: the tree refused {rejected} of {cases + rejected} programs the generator builds as valid: {msg}")
        return 2
    engine_runs = sum(s["engine_runs"] for s in shards) + corpus_runs
    nontriv = set()
    labels = {}
    samples = []
    buckets = {}
    for s in shards:
        nontriv.update(s["nontrivial_hashes"])
        for k, v in s["labels"].items():
            labels[k] = labels.get(k, 0) + v
        for smp in s["samples"]:
            if len(samples) < 4:
                samples.append(smp)
        for k, v in s["known_hits"].items():
            known_hits[k] = known_hits.get(k, 0) + v
        for k, b in s["buckets"].items():
            cur = buckets.get(k)
            if cur is None or b["size"] < cur["size"]:
                cnt = (cur["count"] if cur else 0) + b["count"]
                buckets[k] = dict(b, count=cnt, shard_seed=s["seed"])
            else:
                cur["count"] += b["count"]
    for k, b in sorted(buckets.items()):
        case, viol = b["case"], b["viol"]
        if tier == "thorough":
            best = shrink_bucket(mod, prop, tier, b["shard_seed"], k, variant)
            if best["case"] is not None and len(canon(best["case"])) <= b["size"]:
                case, viol = best["case"], best["viol"]
        violations.append((case, viol, f"generated x{b['count']}"))

    # --- report
    rc = 0
    rep_dir = VERIF / "replays" / prop
    for case, viol, origin in violations:
        rep_dir.mkdir(parents=True, exist_ok=True)
        h = case_hash(case)
        path = rep_dir / f"{h}.json"
        path.write_text(json.dumps({"property": prop, "case": case, "violation": viol, "origin": origin}, indent=1))
        print(f"VIOLATION property={prop} replay={path}")
        print(f"  clause={viol['clause']} {viol['msg'][:600]}")
        rc = 1
    printed = set()
    for f in known:
        if f["id"] in printed:
            continue
        printed.add(f["id"])
        if known_hits.get(f["id"], 0) > 0 or f.get("always_report", True):
            print(f"KNOWN-FINDING: property={prop} {f['id']} {f['title']} (hits this run: {known_hits.get(f['id'], 0)})")
    if not samples:
        samples = [{"note": "no non-trivial case generated"}]
    ev = {
        "property_id": prop, "tier": tier, "seed": seed, "level": getattr(mod, "LEVEL", "exploration"),
        "coverage": {
            "evaluations": engine_runs, "cases": cases, "distinct_nontrivial": len(nontriv), "rule": mod.RULE,
            "samples": samples, "labels": dict(sorted(labels.items())), "shards": n_shards,
            "shard_seeds": [s["seed"] for s in shards], "skipped_for_budget": sum(s["skipped_budget"] for s in shards),
            "corpus_replayed": len(corpus_results), "known_finding_hits": known_hits, "programs_refused_by_tree": rejected,
            "tree_fingerprint": info.get("fingerprint"), "build_variant": variant, "recompiled_tus": info.get("recompiled", []),
            "worker_crashes": sum(s["worker_crashes"] for s in shards),
        },
        "assumptions": [
            "g++ 12.2 -O1 build of /repo's working tree with 4 toolchain shims (date/tz.h alias to arrow_vendored::date, chrono operator<< compat for temporal.cpp, json_impl.cpp without simdjson BIGINT arms)",
            "the native harness hgv_worker (scripted nodes, value serialiser) and the engine's own LifecycleObserver / view accessors as observation points",
            "Hypothesis 6.168 generators; seeds = VERIF_SEED*1000+shard",
        ] + list(getattr(mod, "ASSUMPTIONS", [])),
        "wall_s": round(time.time() - t0, 2), "violations": len(violations),
    }
    (VERIF / "evidence").mkdir(exist_ok=True)
    (VERIF / "evidence" / f"{prop}.json").write_text(json.dumps(ev, indent=1))
    print(f"{prop} {tier}: cases={cases} engine_runs={engine_runs} nontrivial={len(nontriv)} violations={len(violations)} "
          f"known_hits={known_hits} wall={ev['wall_s']}s")
    return rc


def replay(path: str) -> int:
    data = json.loads(Path(path).read_text())
    prop = data["property"]
    from build import build as bld
    try:
        bld.ensure("plain", verbose=True)
    except SystemExit:
        return 2
    mod = importlib.import_module(f"props.{prop.lower()}")
    worker = Worker()
    ctx = Ctx(worker, "quick")
    known = load_known(prop)
    try:
        res = mod.check(data["case"], ctx)
    except HarnessError as e:
        print(f"HARNESS-ERROR {e}")
        return 2
    finally:
        worker.close()
    rc = 0
    for v in res.violations:
        kf = match_known(known, v)
        if kf is not None:
            print(f"KNOWN-FINDING: property={prop} {kf['id']} {kf['title']}")
            continue
        print(f"VIOLATION property={prop} replay={path}")
        print(f"  clause={v.clause} {v.msg[:1500]}")
        rc = 1
    if rc == 0:
        print(f"replay {path}: no unlisted violation")
    return rc
