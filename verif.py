#!/usr/bin/env python3
"""Entry point: setup | check <Cxx> --tier quick|thorough | replay <file>.

Exit codes: 0 = property held on everything explored; 1 = VIOLATION line(s) printed; 2 = harness/build error.
"""
import os
import subprocess
import sys
from pathlib import Path

VERIF = Path(__file__).resolve().parent
os.chdir(VERIF)
sys.path.insert(0, str(VERIF))
if (VERIF / ".deps").exists():
    sys.path.insert(0, str(VERIF / ".deps"))
os.environ.setdefault("PYTHONHASHSEED", "0")


def ensure_hypothesis() -> bool:
    try:
        import hypothesis  # noqa: F401
        return True
    except ImportError:
        pass
    deps = VERIF / ".deps"
    r = subprocess.run([sys.executable, "-m", "pip", "install", "--no-index", "--find-links", "/opt/veriftools/wheels",
                        "--target", str(deps), "hypothesis"], capture_output=True, text=True)
    if r.returncode != 0:
        print("setup: cannot install hypothesis offline:\n" + r.stdout[-2000:] + r.stderr[-2000:], file=sys.stderr)
        return False
    sys.path.insert(0, str(deps))
    return True


def main(argv):
    if len(argv) < 2:
        print(__doc__)
        return 2
    cmd = argv[1]
    if not ensure_hypothesis():
        return 2
    if cmd == "setup":
        from build import build as bld
        info = bld.ensure("plain")
        print("setup: build ok", {k: (len(v) if isinstance(v, list) else v) for k, v in info.items()})
        from hgv.worker import Worker
        w = Worker()
        r = w.request({"op": "ping"})
        w.close()
        print("setup: worker ping", r)
        return 0 if r.get("pong") else 2
    if cmd == "check":
        prop = argv[2].upper()
        tier = os.environ.get("VERIF_TIER", "quick")
        if "--tier" in argv:
            tier = argv[argv.index("--tier") + 1]
        seed = int(os.environ.get("VERIF_SEED", "1"))
        from hgv.runner import run_check
        return run_check(prop, tier, seed)
    if cmd == "replay":
        from hgv.runner import replay
        return replay(argv[2])
    print(__doc__)
    return 2


if __name__ == "__main__":
    sys.exit(main(sys.argv))
