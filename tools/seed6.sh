#!/bin/bash
# usage: seed6.sh Cxx <check> [<check>...]  - confirm a wave-6 seed (demo on pristine / changed) and run the named quick checks against it
c=$1; shift
/verif/tools/confirm_seedn.sh 6 $c 2>&1 | grep -v "^ok: built"
git -C /tmp/seedkit_repo apply --check /tmp/seed_out6/$c/patch.diff && echo "$c patch applies to clean checkout"
/verif/tools/try_seed.sh /tmp/seed_out6/$c/patch.diff "$@" 2>&1 | cut -c1-400
