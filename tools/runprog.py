#!/venv/bin/python
"""runprog.py <program.json | ->  : run one harness program through hgv_worker and print the response (debug helper)"""
import json, sys
sys.path.insert(0, "/verif")
from hgv.worker import Worker
src = sys.stdin.read() if sys.argv[1] == "-" else open(sys.argv[1]).read()
prog = json.loads(src)
w = Worker()
req = prog if "op" in prog else {"op": "run", "prog": prog}
r = w.request(req)
w.close()
if len(sys.argv) > 2 and sys.argv[2] == "ev":
    print({k: v for k, v in r.items() if k not in ("trace", "graph")})
    for e in r.get("trace", []):
        if e[0] in ("ev",):
            print(json.dumps(e)[:600])
elif len(sys.argv) > 2 and sys.argv[2] == "full":
    print(json.dumps(r))
else:
    print(json.dumps(r)[:6000])
