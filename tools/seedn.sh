#!/bin/bash
# usage: seedn.sh <wave> Cxx <check> [<check>...]  - confirm a wave-n seed (demo on pristine / changed) and run the named quick checks against it
n=$1; c=$2; shift; shift
/verif/tools/confirm_seedn.sh $n $c 2>&1 | grep -v "^ok: built"
git -C /tmp/seedkit_repo apply --check /tmp/seed_out$n/$c/patch.diff && echo "$c patch applies to clean checkout"
/verif/tools/try_seed.sh /tmp/seed_out$n/$c/patch.diff "$@" 2>&1 | cut -c1-400
