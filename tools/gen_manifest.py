#!/usr/bin/env python3
"""Regenerates MANIFEST.json from the table below (kept in one place so it stays valid)."""
import json
from pathlib import Path

VERIF = Path(__file__).resolve().parent.parent
PY = "/venv/bin/python"

NOTE_COMMON = ("Trusted base: g++ 12.2 build of the working tree with four toolchain shims (none in a property anchor), the native "
               "harness hgv_worker and its scripted nodes/value serialiser, the engine's LifecycleObserver and view accessors as "
               "observation points, Hypothesis. Held-on-everything-explored, never absence.")

CLAIMED = {
    "C02": dict(
        text=("Generated-program exploration: thousands of Hypothesis-constructed simulation programs per run (scripted sources, "
              "self-scheduling timer nodes with tagged/relative/absolute/cancelled requests, requests during start, nested "
              "children 1-3 deep, feedback) are executed by the real engine built from the working tree; an independent "
              "pending-request model replays the logged requests against the observed cycle brackets and flags any dropped, "
              "shifted, early, late, out-of-window or unrequested cycle and any wrong next_scheduled_time."),
        technique="property-based testing: Hypothesis program generator + reference pending-request model over the observed trace",
        ref="DESIGN.md §5 C02",
        note=NOTE_COMMON + " A cycle at the time of a request that was later cancelled is tolerated."),
}

NOT_YET = {}


def main():
    props = [json.loads(l) for l in (VERIF / "properties.jsonl").read_text().splitlines() if l.strip()]
    checks, na = [], []
    for p in props:
        pid = p["id"]
        if pid in CLAIMED:
            c = CLAIMED[pid]
            checks.append({
                "property_id": pid,
                "quick_cmd": f"{PY} verif.py check {pid} --tier quick",
                "thorough_cmd": f"{PY} verif.py check {pid} --tier thorough",
                "evidence_file": f"/verif/evidence/{pid}.json",
                "replay_cmd_template": f"{PY} verif.py replay {{path}}",
                "engine": "hgv",
                "level_claimed": {"category": c.get("category", "exploration"), "text": c["text"], "design_ref": c["ref"]},
                "level_note": c["note"],
                "technique": c["technique"],
            })
        else:
            na.append({"property_id": pid, "reason": NOT_YET.get(pid, "check not built yet in this round (planned in DESIGN.md §5); not claimed until its quick check is sound")})
    m = {
        "version": 1,
        "setup_cmd": f"{PY} verif.py setup",
        "hooks": {"guard": "HGRAPH_VERIF", "enable": "none needed: no source hooks; checks compile /repo's working tree as is",
                  "baseline_off_cmd": "cd /repo && /venv/bin/python -m pytest -ra -q -p no:cacheprovider --timeout=900 --continue-on-collection-errors",
                  "source_commits": [], "add_only": True},
        "engines": [{"name": "hgv", "path": "/verif/verif.py", "serves_properties": sorted(CLAIMED),
                     "kind_free_text": "Hypothesis generators (python) driving a native harness (hgv_worker, C++) linked against the working tree compiled by /verif/build/build.py"}],
        "checks": checks,
        "notes": "All checks rebuild incrementally from /repo's working tree (content-hash keyed). Exit 2 = harness/build error, never a violation.",
        "not_applicable": na,
    }
    (VERIF / "MANIFEST.json").write_text(json.dumps(m, indent=1))
    print(f"MANIFEST: {len(checks)} claimed, {len(na)} not applicable")


if __name__ == "__main__":
    main()
