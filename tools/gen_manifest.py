#!/usr/bin/env python3
"""Regenerates MANIFEST.json from the table below (kept in one place so it stays valid)."""
import json
from pathlib import Path

VERIF = Path(__file__).resolve().parent.parent
PY = "/venv/bin/python"

NOTE_COMMON = ("Trusted base: g++ 12.2 build of the working tree with four toolchain shims (none in a property anchor), the native "
               "harness hgv_worker and its scripted nodes/value serialiser, the engine's LifecycleObserver and view accessors as "
               "observation points, Hypothesis. Held-on-everything-explored, never absence.")

CLAIMED = {
    "C02": dict(
        text=("Generated-program exploration: thousands of Hypothesis-constructed simulation programs per run (scripted sources, "
              "self-scheduling timer nodes with tagged/relative/absolute/cancelled requests, requests during start, nested "
              "children 1-3 deep, feedback) are executed by the real engine built from the working tree; an independent "
              "pending-request model replays the logged requests against the observed cycle brackets and flags any dropped, "
              "shifted, early, late, out-of-window or unrequested cycle and any wrong next_scheduled_time."),
        technique="property-based testing: Hypothesis program generator + reference pending-request model over the observed trace",
        ref="DESIGN.md §5 C02",
        note=NOTE_COMMON + " A cycle at the time of a request that was later cancelled is tolerated."),
}

CLAIMED.update({
    "C01": dict(
        text=("Generated-program exploration of the rank pass and the per-cycle scan: random DAGs (fan-in/out, diamonds, structural "
              "TSL/TSB sources, inlined and nested sub-programs to depth 3, delayed bindings, random admissible statement order) are "
              "compiled and run by the real engine; the oracle checks, from the IR's own who-reads-whom relation, that every producer is "
              "ranked before its consumer, every compiled edge goes forward, push sources form the prefix, each graph bracket visits "
              "strictly increasing node indices, child brackets lie inside their parent node's visit, and that a consumer which ran in a "
              "cycle read exactly what its producers wrote in that cycle. A second generator wires dependency cycles of length 1-5 "
              "(through structural sources and a nested hop): finish() must reject them, and the same loop cut by feedback must build."),
        technique="property-based testing: Hypothesis DAG/cycle generators + invariants over compiled graph and observed trace",
        ref="DESIGN.md §5 C01", note=NOTE_COMMON),
    "C03": dict(
        text=("Model-based exploration: programs over scripted sources and logging nodes with random active/valid/all_valid selectors, "
              "passive tags and scheduler scripts are run by the engine and by a ~250-line reference interpreter transcribing the "
              "statement; the node's own invocation log (times, per-input valid/modified/value, output) must equal the model's in both "
              "directions. One genuine deviation (F1, see known_findings.json) is excluded by construction: a second model run that adds "
              "exactly that rule must then match completely, otherwise the difference is reported."),
        technique="property-based testing: Hypothesis program generator + executable reference model (differential against the engine)",
        ref="DESIGN.md §5 C03, §5a F1", note=NOTE_COMMON + " The reference model (hgv/model.py) is trusted for the clauses it decides; explicit invalidation and REF inputs are out of scope here."),
    "C06": dict(
        text=("Metamorphic exploration: each generated dataflow program is wired in 2-3 random admissible statement orders and must give "
              "identical per-node evaluation streams, cycle times and node counts; a duplicated statement (intern-eligible vs forced unique) "
              "must not change any recorder stream, near-duplicates (one scalar / one input / function changed / one input passive) and identical sinks - "
              "plain, nested, map_ and switch_ statements without an output - must remain distinct nodes; projection twins over a bundle / list argument and "
              "switch_ twins that differ only in their keyword-to-slot mapping must each compute their own stream."),
        technique="property-based testing: metamorphic relation (permutation / duplication) between runs of the real engine",
        ref="DESIGN.md §5 C06", note=NOTE_COMMON + " Scalar-type collisions (1 vs true) are not exercised because harness nodes carry one string scalar."),
    "C18": dict(
        text=("Model-based exploration at two levels: (unit) generated and state-machine-built operation histories against a bare "
              "NodeScheduler compiled from the tree, compared with a multiset model after every operation (all queries and the event "
              "set); (graph) the same operations issued by nodes of a running graph, interleaved with input-driven evaluations: every "
              "pending time must be honoured by a visit at exactly that time, and the answers logged inside evaluations must equal the model's."),
        technique="property-based testing: Hypothesis composite + RuleBasedStateMachine histories against a multiset reference model",
        ref="DESIGN.md §5 C18", note=NOTE_COMMON + " A cycle at the time of a cancelled request is tolerated here (F1 is owned by C03)."),
})

CLAIMED.update({
    "C04": dict(
        text=("Model-based exploration of the four endpoint facts: a scripted writer over random schemas (depth <= 3) follows a generated "
              "write history with several writes per cycle, gaps, child-only writes, whole-value writes of partially populated bundle values "
              "(incl. values that populate nothing), whole-set and whole-dictionary writes (copy and move form, incl. the empty collection) and explicit invalidations; consumers are bound to the "
              "whole output, to a child path and from inside a nested child; a metronome forces a cycle at every smallest step. After every "
              "cycle modified / valid / last-modified-time / value / per-tick delta are read at every node of the producer's tree and of "
              "every consumer's view and compared with the write history and with each other. Known findings F2 (invalidation) and F9 "
              "(stale child delta through a consumer view) are excluded by construction and counted."),
        technique="property-based testing: Hypothesis schema+history generator, sequential Python value model, invariants over per-cycle snapshots",
        ref="DESIGN.md §5 C04, §5a F2", note=NOTE_COMMON + " Tick-window validity is owned by C05; same-cycle erase+rewrite of a key is not generated here."),
    "C05": dict(
        text=("Model-based exploration of collection deltas: generated (and state-machine-built) mutation histories over TSS/TSD (nested "
              "values)/TSL/TSB/TSW with cancelling pairs, re-insertions, clears and growth across slot-capacity boundaries; at every tick "
              "the observed value must equal the sequentially applied script, and value(t) must equal value(t-1) with the observed delta "
              "applied (added/removed disjoint, removed present before, cancelled mutations leaving no trace), the typed accessors and "
              "capture_delta must agree with delta_value, tick-count and duration windows (pushed, cleared, cleared-and-pushed) must hold the last N pushes / the pushes of the "
              "last range, report the element pushed out by a tick (and none after a clear) and be valid from their minimum count. "
              "Known findings F3 and F6 are excluded by construction and counted."),
        technique="property-based testing: Hypothesis composite + RuleBasedStateMachine histories, reference value model, delta/value coherence invariants",
        ref="DESIGN.md §5 C05, §5a F3 F6", note=NOTE_COMMON + " Payloads of never-written children are not compared."),
    "C08": dict(
        text=("Relational + model-based exploration of feedback: programs with 1-3 feedback edges (accumulator self loops, mutual loops, "
              "relays of TS/TSS/TSD writers, with/without initial value, passive/active readers, inside a nested child) are run; the "
              "recorder on each feedback reader must show exactly the producer's ticks shifted by one smallest step (initial value at "
              "start), same deltas, never in the producing cycle; for scalar loops the whole run must equal a delay-one reference model "
              "(quiescence of passive loops, values of active ones)."),
        technique="property-based testing: Hypothesis loop generator, shift-by-one relation between recorder streams, reference model",
        ref="DESIGN.md §5 C08", note=NOTE_COMMON + " Cancelling mutations inside one cycle are left to C05."),
    "C20": dict(
        text=("Round-trip exploration: for random schemas and tick histories the original run records with the library's record operator, "
              "a second run in the same request replays the recorded Values with the replay operator and records again; recordings, tick "
              "times, deltas and values must be equal; beside it a capture_delta->apply_delta mirror must track the source tick by tick "
              "and re-capture the same delta. Known finding F8 (replay validates never-ticked empty collection children) is excluded "
              "and counted."),
        technique="property-based testing: Hypothesis schema+history generator, record/replay and capture/apply round-trip oracles",
        ref="DESIGN.md §5 C20", note=NOTE_COMMON + " Runs start at MIN_ST (the TESTING backend's dense buffer is indexed from there); ticks with an empty structural delta that leave the value unchanged are optional on both sides (documented as not externally observable)."),
})

CLAIMED.update({
    "C09": dict(
        text=("Differential exploration: a generated sub-program (stateless/stateful nodes, self-scheduling timers, an internal source "
              "relative to start, pass-through result, captured outer port) is applied inlined and nested at depth 1, 2 and 3-4 in separate "
              "engine runs; the result recorder streams must be identical, and every nested run is replayed against the pending-request "
              "model (no lost child wake-up, no child cycle before its parent). Known finding F10 (validity-waiving nodes are sampled at a "
              "nested start) is excluded and counted."),
        technique="property-based testing: differential (inlined vs nested) between engine runs + pending-request model per nesting level",
        ref="DESIGN.md §5 C09", note=NOTE_COMMON),
    "C10": dict(
        text=("Differential exploration of map_: a generated mapped function (stateless, stateful, self-scheduling, key-consuming, with a "
              "broadcast argument) over a scripted TSD key history (add/update/remove/re-add, many keys per cycle, growth over 8/16/32) is "
              "compared, per key and lifetime, with the same function run ALONE in a second engine run (one inlined copy per lifetime fed "
              "that key's ticks); output key set, removal deltas, full value at every tick and child start/stop counts are checked. Also: a "
              "second multiplexed dictionary whose keys come and go independently, and nested maps (map_ of map_ over a dictionary of "
              "dictionaries) compared per outer key with the inner map_ run alone."),
        technique="property-based testing: differential (map_ vs per-key solo run of the mapped function) between engine runs",
        ref="DESIGN.md §5 C10", note=NOTE_COMMON + " One multiplexed dictionary; failure isolation per key is exercised under C15."),
    "C11": dict(
        text=("Model-based exploration of reduce: +, max, xor combiners (single node or two-node sub-graph) with/without a non-identity "
              "zero over scripted TSD histories (shrink to empty, regrow, bursts over 1/2/4/8/16/32 live keys) and fixed TSLs whose elements "
              "become valid over time; the result endpoint is read in every cycle the collection or result ticked and must equal the fold "
              "of the currently valid elements with the stated zero rules."),
        technique="property-based testing: Hypothesis history generator + fold reference model",
        ref="DESIGN.md §5 C11", note=NOTE_COMMON + " Dynamic TSL is not exercised; same-cycle erase+rewrite (F6/F7) is not generated."),
    "C12": dict(
        text=("Differential exploration of switch_: generated branches (stateless, stateful, self-scheduling, key-consuming, default, "
              "reload_on_ticked, ending in a plain node or in a nested graph node, scalar or collection output) and key histories with rapid flips and returns; the switch output must equal the concatenation of the "
              "selected branches run ALONE per interval in a second engine run (inputs sampled at the switch), no deselected instance may "
              "run user code after its stop, at most one child is alive, an unmatched key without default must fail the run."),
        technique="property-based testing: differential (switch_ vs per-interval solo run of the branch) between engine runs + lifecycle invariants",
        ref="DESIGN.md §5 C12", note=NOTE_COMMON),
    "C13": dict(
        text=("Model-based exploration of references: if_then_else (two targets), if_cmp over cmp_ (three targets), the re-publishing router if_(c, a) or pass-through switch_ branches over TS/TSS/TSD/TSB targets (separate outputs or sibling children of one output) (optionally through a nested pass-through) read "
              "by 1-3 consumers and by a consumer of the reference itself; a model of 'current target' predicts for every cycle whether "
              "each consumer is evaluated, the value it reads, for sets/dictionaries the retarget delta and on ordinary ticks the target's own delta, that re-published selections and "
              "unselected targets cause no evaluation, and that the reference output ticks only on a real selection change. Known finding "
              "F5 (stale removed entries in the retarget delta) is excluded and counted."),
        technique="property-based testing: Hypothesis timing generator + current-target reference model",
        ref="DESIGN.md §5 C13", note=NOTE_COMMON + " REF-typed switch_ outputs and bundles forwarded out of a switch_ are not asserted; delta_value() on a sampled rebind is not asserted."),
})

CLAIMED.update({
    "C07": dict(
        text=("Differential exploration of reproducibility and isolation: each generated program (stateful dataflow, map_ with dynamic "
              "children, recorded writer) is run alone in a freshly started worker process, then inside a long-lived worker that has "
              "already built and run thousands of unrelated graphs, with its builder reused up to 4 times and up to 8 executors running "
              "simultaneously on threads; every run's complete event trace and recorded buffers must be byte-identical to the fresh run. "
              "Overlap of the run() intervals is measured and reported. In a further stage the main thread holds a GlobalContext over "
              "a state of its own while worker threads wire, build and run programs (optionally inside their own context): same traces, "
              "the host's key never visible in those runs, the host's state untouched."),
        technique="property-based testing: differential (fresh process vs history / builder reuse / concurrent threads) over full traces",
        ref="DESIGN.md §5 C07", note=NOTE_COMMON + " Thread interleavings are sampled by the OS, not enumerated; a race that changes no output is invisible. Wiring, make_executor and release stay on one thread (the supported usage)."),
    "C14": dict(
        category="fault_enumeration",
        text=("Fault-injection exploration: programs (flat chains, nested 1-2 deep, live map_ children, live switch_ branch) are combined with "
              "generated fault plans of 1-2 scripted exceptions (node x start/evaluate/stop x occurrence), cleanup_on_error on/off and "
              "request_stop; the lifecycle log of every graph is checked for start order, reverse stop order, exactly one stop per completed "
              "start by the required moment, no evaluation outside [start, stop], full rollback of a failed start, stops continuing after a "
              "failing stop, and the first error reaching the caller with node and phase. Two genuine defects found this way were repaired "
              "(fix: commits eab566f, 964c8c8) and are kept as corpus regressions."),
        technique="property-based testing with fault injection: Hypothesis program x fault-plan generator + lifecycle-log invariants",
        ref="DESIGN.md §5 C14, §5a F4", note=NOTE_COMMON + " Fault points are sampled, not enumerated exhaustively; reduce combiner children are not in the generated shapes."),
    "C15": dict(
        text=("Differential exploration of captured errors: a program with throwing compute nodes under exception_time_series, a throwing "
              "sub-graph under try_except, or a map_ whose children of chosen keys throw (the thrower optionally self-scheduling, throwing also in cycles fired by its "
              "own alarm), is run with and without the faults; the run must "
              "complete, independent streams must be identical, error outputs must tick exactly in the throw cycles with the thrown "
              "message, the failing node must be evaluated again normally afterwards, and keyed errors must appear under the failing keys only."),
        technique="property-based testing: differential (with vs without faults) between engine runs",
        ref="DESIGN.md §5 C15", note=NOTE_COMMON + " The failing node's ordinary output in a throw cycle is documented as unspecified and not compared."),
    "C19": dict(
        text=("Model-based + metamorphic exploration of operator resolution: run-time overload families from a pattern grammar (concrete, "
              "scalar / whole-TS / repeated / size variables, nested TSD/TSL/TSS/TSB, REF, SIGNAL) are registered in 2-4 orders under fresh "
              "names and resolved against generated argument tuples; an independent Python unifier decides matches, bindings, output type "
              "and the substitution-instance order. A finite sub-domain (families of <= 3 one-parameter candidates over 15 patterns x 6 "
              "argument types x all orders) is enumerated exhaustively in every run. Known finding F12 (size variables carry no rank) is "
              "excluded and counted."),
        technique="property-based testing: metamorphic (registration order) + reference unifier; exhaustive enumeration of a finite sub-domain",
        ref="DESIGN.md §5 C19", note=NOTE_COMMON + " Scalar (non time-series) parameters with defaults and the compiled-in static-node candidates are not exercised; incomparable candidates are only subject to order independence."),
})

CLAIMED.update({
    "C16": dict(
        text=("Schedule-steered exploration of the push queue: real-time runs with 1-4 producer threads following generated phase scripts "
              "(free-running with jitter, consumer provably latched inside an evaluation, a sink that sends a value back into the source from the evaluation thread, a second source, loop idle-waiting after a measured drain, racing "
              "request_stop, after run() returned), queue / burst / conflating policies, capacities unbounded/1/2/5, blocking and "
              "non-blocking sends; every send and delivery carries a global atomic sequence. The history is checked for exactly-once in-order "
              "delivery per producer, happens-before across producers, one value (or one in-order tuple) per strictly later cycle, no loss "
              "before the stop race, pending <= capacity at every sample, the exact acceptance count while latched, no illegitimate "
              "refusal, nothing accepted after stop."),
        technique="property-based testing over generated thread phase scripts (latches, jitter) with history invariants",
        ref="DESIGN.md §5 C16", note=NOTE_COMMON + " Interleavings are steered, not enumerated: a lost wake-up that needs a window of a few instructions may escape. The only timing bound asserted is a 20 s watchdog."),
    "C17": dict(
        text=("Exploration of the real-time loop: millisecond-long runs with self-scheduling timers (relative requests, tagged chains, "
              "wall-clock alarms incl. already-due ones), a sleeping node that makes the graph lag, pushes while evaluating and while "
              "waiting with a 1 h wait slice, ending by end_time or by request_stop from another thread. From (evaluation_time, wall clock) "
              "logged by every node: cycle times strictly increase inside the window, wall clock >= evaluation_time, every relative request "
              "is evaluated at exactly its time and none is dropped (pending-request model), booked alarms due before the end are delivered, "
              "pushes during the wait are delivered, run() returns within the watchdog."),
        technique="property-based testing of real-time histories: pending-request model + never-early / delivered-late inequalities",
        ref="DESIGN.md §5 C17", note=NOTE_COMMON + " Bounded liveness only (20 s watchdog, lateness always allowed); OS schedules are sampled, not enumerated."),
})

NOT_YET = {}



# sentences added by later rounds (wave 6): what each check additionally generates / asserts
EXTRA = {
    "C01": " Wave 6: a mesh_ pass - mesh_(F, val, link) with F = val + mesh_(F)[link], links made onto existing idle instances and re-pointed, acyclic by construction - compares every instance's result with the fixpoint at every cycle (an instance that ran before the sibling it reads, or was not re-run, shows as a stale value); found and fixed F25.",
    "C02": " Wave 6: programs may contain dynamic children with their own timers (map_ children coming and going, reduce combiners created / re-bound / retired, switch_ branches replaced), half of them 'settling' nodes that publish only when their alarm fires; the pending-request model is keyed by child-graph instance and voids a stopped child's requests; found and fixed F30.",
    "C03": " Wave 6: nodes issue run-time make_passive() / make_active() on plain inputs at the end of chosen evaluations; the reference model carries the dynamic active set and the active() answers are compared.",
    "C04": " Wave 6: the filtered iteration accessors (modified_items / valid_items / modified_values / valid_values) of every list / bundle view, producer and consumer side, must list exactly the children whose own flags read true in that cycle.",
    "C07": " Wave 6: a shared-context stage - one GlobalContext spans several wire + run rounds of recording programs (dense and sparse testing recorder) with the state copied back after every run (the eval_node / lower idiom); every round must equal the program's run in a fresh process.",
    "C08": " Wave 6: a passive feedback reader may be preceded by an intern-eligible twin of the same node that reads the feedback actively; the passive one must stay a node of its own and the loop must go quiet.",
    "C09": " Wave 6: the application is also hosted inside a switch_ branch or a map_ child that starts mid-run while its inputs already hold values (inlined vs nested inside that child); known finding F28 covers sub-graphs that depend on modified() in the child's start cycle.",
    "C10": " Wave 6: map_ over lists (fixed size, and dynamic lists that grow to 70 elements with holes) compared per index with the function run alone; map_ with an explicit __keys__ key set, where a key may be live before / without its element and the function has a start-active node (the function alone is run per lifetime from the appearance time).",
    "C12": " Wave 6: branches that end in a reduce over a held dictionary (a re-pointing forwarding terminal), compared by state with the reduce run alone from the switch time while the dictionary grows and shrinks.",
    "C14": " Wave 6: two more kinds of live dynamic children - map_ over a dynamic list and the ordered (left-fold) reduce whose chain is rebuilt on every length change; and mesh_ instances; found and fixed F26 and F31, recorded F27.",
    "C15": " Wave 6: the library's own lifted kernels (floordiv_, mod_) under node-level error capture, dividing by a scripted divisor that hits 0, optionally read passively.",
    "C19": " Wave 6: families with variadic overloads; the independent matcher checks every trailing argument against the tail pattern under the bindings made by the fixed parameters (match / no-match / winner / output type; the relative rank of variadic overloads is not asserted).",
    "C20": " Wave 6: a recorded top-level set / dictionary whose first tick carries no element must become valid in the same cycle when replayed and when re-applied through apply_delta.",
}
EXTRA7 = {
    "C05": " Wave 7: whole-set writes also follow element-wise mutations of the same cycle.",
    "C07": " Wave 7: in the shared-context stage the buffer is also read from the context's state after the copy-back.",
    "C10": " Wave 7: map_ over a dictionary that arrives through a re-pointed reference (if_then_else(c, dA, dB)), stateless function, full value compared at every cycle.",
    "C11": " Wave 7: a live, ticking time-series zero; a keyed reduce (dictionary elements, key-wise-sum combiner).",
    "C12": " Wave 7: branch nodes log their inputs (modified <=> last_modified_time == now, modified => valid); the first boundary input of a branch node may be passive.",
    "C13": " Wave 7: a SIGNAL-typed consumer of the reference beside the value consumers.",
    "C14": " Wave 7: a start fault in ONE child of a map_'s first generation.",
    "C15": " Wave 7: exception messages may run over several lines; the error text is compared exactly.",
    "C19": " Wave 7: dynamic (unsized) lists among the arguments, the size-0 wildcard.",
    "C20": " Wave 7: the recording is also handed to the replay as a whole-Value copy of the buffer.",
}
EXTRA8 = {
    "C04": " Wave 8: explicit invalidation of fixed-shape collection endpoints (over scalar leaves); the parent's own value() must agree with what its valid scalar children read.",
    "C06": " Wave 8: passive-tagged inputs in the generated dataflow programs.",
    "C01": " Wave 8: passive-tagged inputs in the generated dataflow programs (their producers are still ranked first).",
    "C08": " Wave 8: the loops also live inside every child of a two-key map_.",
    "C12": " Wave 8: a branch node fed by a list / bundle assembled structurally from the branch arguments.",
    "C13": " Wave 8: list-shaped targets; the consumer's iteration accessors and per-child modified flags in retarget cycles.",
    "C17": " Wave 8: the push source may book a timer of its own in its start hook; pushes before that time must not make the loop forget it.",
}
EXTRA10 = {
    "C18": " Wave 10: the graph-level histories also run with the scheduler nodes inside a nested child graph.",
    "C03": " Wave 10: wiring-time passive tags also on inputs of the real static nodes.",
    "C05": " Wave 10: duration windows - a push that prunes nothing leaves no removed value to read; a dynamic-list mode (several elements per cycle: delta_value, capture_delta and modified_items list exactly the written indices).",
    "C09": " Wave 10: the application's own argument tagged passive(...) (known finding F33).",
}
EXTRA9 = {
    "C02": " Wave 9: children of map_ over a dynamic list among the dynamic children.",
    "C11": " Wave 9: the library operator passed directly as the function value (lifted-kernel path), also mul_.",
    "C14": " Wave 9: node-level error capture on a node with start / stop hooks; the node's own stop code must have run as often as its own start code completed (beside the engine's observer events).",
    "C15": " Wave 9: twin intern-eligible consumers on the key set of a map_'s ordinary output and of its error output.",
    "C19": " Wave 9: constrained scalar variables (~T:{int,str}).",
}
for _k, _v in EXTRA.items():
    CLAIMED[_k]["text"] += _v
for _k, _v in EXTRA9.items():
    CLAIMED[_k]["text"] += _v
for _k, _v in EXTRA10.items():
    CLAIMED[_k]["text"] += _v
for _k, _v in EXTRA8.items():
    CLAIMED[_k]["text"] += _v
for _k, _v in EXTRA7.items():
    CLAIMED[_k]["text"] += _v

def main():
    props = [json.loads(l) for l in (VERIF / "properties.jsonl").read_text().splitlines() if l.strip()]
    checks, na = [], []
    for p in props:
        pid = p["id"]
        if pid in CLAIMED:
            c = CLAIMED[pid]
            checks.append({
                "property_id": pid,
                "quick_cmd": f"{PY} verif.py check {pid} --tier quick",
                "thorough_cmd": f"{PY} verif.py check {pid} --tier thorough",
                "evidence_file": f"/verif/evidence/{pid}.json",
                "replay_cmd_template": f"{PY} verif.py replay {{path}}",
                "engine": "hgv",
                "level_claimed": {"category": c.get("category", "exploration"), "text": c["text"], "design_ref": c["ref"]},
                "level_note": c["note"],
                "technique": c["technique"],
            })
        else:
            na.append({"property_id": pid, "reason": NOT_YET.get(pid, "check not built yet in this round (planned in DESIGN.md §5); not claimed until its quick check is sound")})
    m = {
        "version": 1,
        "setup_cmd": f"{PY} verif.py setup",
        "hooks": {"guard": "HGRAPH_VERIF", "enable": "none needed: no source hooks; checks compile /repo's working tree as is",
                  "baseline_off_cmd": "cd /repo && /venv/bin/python -m pytest -ra -q -p no:cacheprovider --timeout=900 --continue-on-collection-errors",
                  "source_commits": [], "add_only": True},
        "engines": [{"name": "hgv", "path": "/verif/verif.py", "serves_properties": sorted(CLAIMED),
                     "kind_free_text": "Hypothesis generators (python) driving a native harness (hgv_worker, C++) linked against the working tree compiled by /verif/build/build.py"}],
        "checks": checks,
        "notes": "All checks rebuild incrementally from /repo's working tree (content-hash keyed). Exit 2 = harness/build error, never a violation.",
        "not_applicable": na,
    }
    (VERIF / "MANIFEST.json").write_text(json.dumps(m, indent=1))
    print(f"MANIFEST: {len(checks)} claimed, {len(na)} not applicable")


if __name__ == "__main__":
    main()
