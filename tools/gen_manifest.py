#!/usr/bin/env python3
"""Regenerates MANIFEST.json from the table below (kept in one place so it stays valid)."""
import json
from pathlib import Path

VERIF = Path(__file__).resolve().parent.parent
PY = "/venv/bin/python"

NOTE_COMMON = ("Trusted base: g++ 12.2 build of the working tree with four toolchain shims (none in a property anchor), the native "
               "harness hgv_worker and its scripted nodes/value serialiser, the engine's LifecycleObserver and view accessors as "
               "observation points, Hypothesis. Held-on-everything-explored, never absence.")

CLAIMED = {
    "C02": dict(
        text=("Generated-program exploration: thousands of Hypothesis-constructed simulation programs per run (scripted sources, "
              "self-scheduling timer nodes with tagged/relative/absolute/cancelled requests, requests during start, nested "
              "children 1-3 deep, feedback) are executed by the real engine built from the working tree; an independent "
              "pending-request model replays the logged requests against the observed cycle brackets and flags any dropped, "
              "shifted, early, late, out-of-window or unrequested cycle and any wrong next_scheduled_time."),
        technique="property-based testing: Hypothesis program generator + reference pending-request model over the observed trace",
        ref="DESIGN.md §5 C02",
        note=NOTE_COMMON + " A cycle at the time of a request that was later cancelled is tolerated."),
}

CLAIMED.update({
    "C01": dict(
        text=("Generated-program exploration of the rank pass and the per-cycle scan: random DAGs (fan-in/out, diamonds, structural "
              "TSL/TSB sources, inlined and nested sub-programs to depth 3, delayed bindings, random admissible statement order) are "
              "compiled and run by the real engine; the oracle checks, from the IR's own who-reads-whom relation, that every producer is "
              "ranked before its consumer, every compiled edge goes forward, push sources form the prefix, each graph bracket visits "
              "strictly increasing node indices, child brackets lie inside their parent node's visit, and that a consumer which ran in a "
              "cycle read exactly what its producers wrote in that cycle. A second generator wires dependency cycles of length 1-5 "
              "(through structural sources and a nested hop): finish() must reject them, and the same loop cut by feedback must build."),
        technique="property-based testing: Hypothesis DAG/cycle generators + invariants over compiled graph and observed trace",
        ref="DESIGN.md §5 C01", note=NOTE_COMMON),
    "C03": dict(
        text=("Model-based exploration: programs over scripted sources and logging nodes with random active/valid/all_valid selectors, "
              "passive tags and scheduler scripts are run by the engine and by a ~250-line reference interpreter transcribing the "
              "statement; the node's own invocation log (times, per-input valid/modified/value, output) must equal the model's in both "
              "directions. One genuine deviation (F1, see known_findings.json) is excluded by construction: a second model run that adds "
              "exactly that rule must then match completely, otherwise the difference is reported."),
        technique="property-based testing: Hypothesis program generator + executable reference model (differential against the engine)",
        ref="DESIGN.md §5 C03, §5a F1", note=NOTE_COMMON + " The reference model (hgv/model.py) is trusted for the clauses it decides; explicit invalidation and REF inputs are out of scope here."),
    "C06": dict(
        text=("Metamorphic exploration: each generated dataflow program is wired in 2-3 random admissible statement orders and must give "
              "identical per-node evaluation streams, cycle times and node counts; a duplicated statement (intern-eligible vs forced unique) "
              "must not change any recorder stream, near-duplicates (one scalar / one input / function changed) and identical sinks must "
              "remain distinct nodes."),
        technique="property-based testing: metamorphic relation (permutation / duplication) between runs of the real engine",
        ref="DESIGN.md §5 C06", note=NOTE_COMMON + " Scalar-type collisions (1 vs true) are not exercised because harness nodes carry one string scalar."),
    "C18": dict(
        text=("Model-based exploration at two levels: (unit) generated and state-machine-built operation histories against a bare "
              "NodeScheduler compiled from the tree, compared with a multiset model after every operation (all queries and the event "
              "set); (graph) the same operations issued by nodes of a running graph, interleaved with input-driven evaluations: every "
              "pending time must be honoured by a visit at exactly that time, and the answers logged inside evaluations must equal the model's."),
        technique="property-based testing: Hypothesis composite + RuleBasedStateMachine histories against a multiset reference model",
        ref="DESIGN.md §5 C18", note=NOTE_COMMON + " A cycle at the time of a cancelled request is tolerated here (F1 is owned by C03)."),
})

CLAIMED.update({
    "C04": dict(
        text=("Model-based exploration of the four endpoint facts: a scripted writer over random schemas (depth <= 3) follows a generated "
              "write history with several writes per cycle, gaps, child-only writes and explicit invalidations; consumers are bound to the "
              "whole output, to a child path and from inside a nested child; a metronome forces a cycle at every smallest step. After every "
              "cycle modified / valid / last-modified-time / value / per-tick delta are read at every node of the producer's tree and of "
              "every consumer's view and compared with the write history and with each other. Known findings F2 (invalidation) and F9 "
              "(stale child delta through a consumer view) are excluded by construction and counted."),
        technique="property-based testing: Hypothesis schema+history generator, sequential Python value model, invariants over per-cycle snapshots",
        ref="DESIGN.md §5 C04, §5a F2", note=NOTE_COMMON + " Tick-window validity is owned by C05; same-cycle erase+rewrite of a key is not generated here."),
    "C05": dict(
        text=("Model-based exploration of collection deltas: generated (and state-machine-built) mutation histories over TSS/TSD (nested "
              "values)/TSL/TSB/TSW with cancelling pairs, re-insertions, clears and growth across slot-capacity boundaries; at every tick "
              "the observed value must equal the sequentially applied script, and value(t) must equal value(t-1) with the observed delta "
              "applied (added/removed disjoint, removed present before, cancelled mutations leaving no trace), the typed accessors and "
              "capture_delta must agree with delta_value, windows must hold the last N pushes and be valid from their minimum count. "
              "Known findings F3 and F6 are excluded by construction and counted."),
        technique="property-based testing: Hypothesis composite + RuleBasedStateMachine histories, reference value model, delta/value coherence invariants",
        ref="DESIGN.md §5 C05, §5a F3 F6", note=NOTE_COMMON + " Payloads of never-written children are not compared."),
    "C08": dict(
        text=("Relational + model-based exploration of feedback: programs with 1-3 feedback edges (accumulator self loops, mutual loops, "
              "relays of TS/TSS/TSD writers, with/without initial value, passive/active readers, inside a nested child) are run; the "
              "recorder on each feedback reader must show exactly the producer's ticks shifted by one smallest step (initial value at "
              "start), same deltas, never in the producing cycle; for scalar loops the whole run must equal a delay-one reference model "
              "(quiescence of passive loops, values of active ones)."),
        technique="property-based testing: Hypothesis loop generator, shift-by-one relation between recorder streams, reference model",
        ref="DESIGN.md §5 C08", note=NOTE_COMMON + " Cancelling mutations inside one cycle are left to C05."),
    "C20": dict(
        text=("Round-trip exploration: for random schemas and tick histories the original run records with the library's record operator, "
              "a second run in the same request replays the recorded Values with the replay operator and records again; recordings, tick "
              "times, deltas and values must be equal; beside it a capture_delta->apply_delta mirror must track the source tick by tick "
              "and re-capture the same delta. Known finding F8 (replay validates never-ticked empty collection children) is excluded "
              "and counted."),
        technique="property-based testing: Hypothesis schema+history generator, record/replay and capture/apply round-trip oracles",
        ref="DESIGN.md §5 C20", note=NOTE_COMMON + " Runs start at MIN_ST (the TESTING backend's dense buffer is indexed from there); ticks with an empty structural delta that leave the value unchanged are optional on both sides (documented as not externally observable)."),
})

NOT_YET = {}


def main():
    props = [json.loads(l) for l in (VERIF / "properties.jsonl").read_text().splitlines() if l.strip()]
    checks, na = [], []
    for p in props:
        pid = p["id"]
        if pid in CLAIMED:
            c = CLAIMED[pid]
            checks.append({
                "property_id": pid,
                "quick_cmd": f"{PY} verif.py check {pid} --tier quick",
                "thorough_cmd": f"{PY} verif.py check {pid} --tier thorough",
                "evidence_file": f"/verif/evidence/{pid}.json",
                "replay_cmd_template": f"{PY} verif.py replay {{path}}",
                "engine": "hgv",
                "level_claimed": {"category": c.get("category", "exploration"), "text": c["text"], "design_ref": c["ref"]},
                "level_note": c["note"],
                "technique": c["technique"],
            })
        else:
            na.append({"property_id": pid, "reason": NOT_YET.get(pid, "check not built yet in this round (planned in DESIGN.md §5); not claimed until its quick check is sound")})
    m = {
        "version": 1,
        "setup_cmd": f"{PY} verif.py setup",
        "hooks": {"guard": "HGRAPH_VERIF", "enable": "none needed: no source hooks; checks compile /repo's working tree as is",
                  "baseline_off_cmd": "cd /repo && /venv/bin/python -m pytest -ra -q -p no:cacheprovider --timeout=900 --continue-on-collection-errors",
                  "source_commits": [], "add_only": True},
        "engines": [{"name": "hgv", "path": "/verif/verif.py", "serves_properties": sorted(CLAIMED),
                     "kind_free_text": "Hypothesis generators (python) driving a native harness (hgv_worker, C++) linked against the working tree compiled by /verif/build/build.py"}],
        "checks": checks,
        "notes": "All checks rebuild incrementally from /repo's working tree (content-hash keyed). Exit 2 = harness/build error, never a violation.",
        "not_applicable": na,
    }
    (VERIF / "MANIFEST.json").write_text(json.dumps(m, indent=1))
    print(f"MANIFEST: {len(checks)} claimed, {len(na)} not applicable")


if __name__ == "__main__":
    main()
