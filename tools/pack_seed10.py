#!/usr/bin/env python3
"""pack_seed2.py <Cxx> <meta fragment json>  - wave-10 seeds: /tmp/seed_out10/<Cxx>/ -> seeded/S10-<Cxx>/"""
import json, shutil, sys
from pathlib import Path
c, frag = sys.argv[1], json.load(open(sys.argv[2]))
src, dst = Path("/tmp/seed_out10") / c, Path("/verif/seeded") / f"S10-{c}"
dst.mkdir(parents=True, exist_ok=True)
for f in ("patch.diff", "demo.cpp", "NOTES.md"):
    shutil.copy(src / f, dst / f)
meta = {"property": c}
meta.update(frag)
meta.setdefault("initially_missed_by", [])
meta.setdefault("what_i_ran", "(1) tools/confirm_seedn.sh 10: built the authoring worktree and the frozen pristine checkout (at /repo HEAD 6f8e146) with the same script; demo.cpp exits 0 on pristine and 1 with the change (re-run by me); patch.diff equals the worktree diff; (2) tools/try_seed.sh: git -C /repo apply patch.diff; /venv/bin/python verif.py check <Cxx> --tier quick (VERIF_SEED=1); git -C /repo checkout -- .")
(dst / "meta.json").write_text(json.dumps(meta, indent=1))
print("packed", dst)
