#!/bin/bash
# usage: try_seed.sh <patch.diff> <check> [<check> ...]   - apply to /repo, run quick checks, always revert
patch=$1; shift
cd /repo || exit 2
if ! git diff --quiet; then echo "REPO DIRTY"; exit 2; fi
git apply "$patch" || { echo "PATCH DOES NOT APPLY"; exit 2; }
cd /verif
for c in "$@"; do
  out=$(VERIF_SHARDS=${VERIF_SHARDS:-12} /venv/bin/python verif.py check $c --tier quick 2>&1)
  rc=$?
  echo "--- $c exit=$rc"
  echo "$out" | grep -A1 "^VIOLATION" | grep -v "^--" | cut -c1-330 | head -8
  echo "$out" | tail -1
done
git -C /repo checkout -- .
