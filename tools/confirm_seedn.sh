#!/bin/bash
# usage: confirm_seedn.sh <wave 2|3> Cxx  - re-run a later-wave agent's demo on the frozen pristine checkout and on its worktree
n=$1; c=$2
cd /tmp
diff <(git -C /tmp/w${n}_$c diff) /tmp/seed_out${n}/$c/patch.diff >/dev/null && echo "$c patch SAME as worktree diff" || echo "$c PATCH DIFFERS"
python3 /tmp/seedkit/build_wt.py /tmp/seedkit_repo /tmp/seedkit_pristine /tmp/seed_out${n}/$c/demo.cpp 2>&1 | tail -1
timeout 300 /tmp/seedkit_pristine/demo >/dev/null 2>&1; echo "$c pristine exit=$?"
python3 /tmp/seedkit/build_wt.py /tmp/w${n}_$c /tmp/o${n}_$c /tmp/seed_out${n}/$c/demo.cpp 2>&1 | tail -1
timeout 300 /tmp/o${n}_$c/demo >/dev/null 2>&1; echo "$c changed exit=$?"
