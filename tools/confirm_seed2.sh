#!/bin/bash
# usage: confirm_seed2.sh Cxx  - re-run the wave-2 agent's demo on the frozen pristine checkout and on its worktree
c=$1
cd /tmp
diff <(git -C /tmp/w2_$c diff) /tmp/seed_out2/$c/patch.diff >/dev/null && echo "$c patch SAME as worktree diff" || echo "$c PATCH DIFFERS"
python3 /tmp/seedkit/build_wt.py /tmp/seedkit_repo /tmp/seedkit_pristine /tmp/seed_out2/$c/demo.cpp 2>&1 | tail -1
timeout 300 /tmp/seedkit_pristine/demo >/dev/null 2>&1; echo "$c pristine exit=$?"
python3 /tmp/seedkit/build_wt.py /tmp/w2_$c /tmp/o2_$c /tmp/seed_out2/$c/demo.cpp 2>&1 | tail -1
timeout 300 /tmp/o2_$c/demo >/dev/null 2>&1; echo "$c changed exit=$?"
