#!/bin/bash
# run every quick check once (VERIF_SEED from env), print one line per check
cd /verif
for i in $(seq -w 1 20); do
  out=$(VERIF_SHARDS=${VERIF_SHARDS:-14} /venv/bin/python verif.py check C$i --tier quick 2>&1); rc=$?
  echo "C$i rc=$rc $(echo "$out" | grep "quick:" | cut -c1-160)"
  echo "$out" | grep -A1 "^VIOLATION\|^HARNESS" | cut -c1-300 | head -4
done
