// "sched_unit": drive a bare NodeScheduler over a NodeSchedulerState (no graph) with a generated operation sequence.
#include "hv.h"
namespace hv {
std::string handle_sched_unit(const JV &req) {
    NodeSchedulerState st;
    std::vector<std::string> tags;
    if (auto *t = req.get("tags")) for (auto &e : t->a) tags.push_back(e.as_str());
    std::string out = "{\"ok\":true,\"res\":[";
    bool first = true;
    for (auto &op : req.at("ops").a) {
        const std::string &k = op.at("k").as_str();
        const DateTime now = abs_t(op.at("now").as_int());
        const bool started = op.bool_or("started", true);
        NodeScheduler s{st, nullptr, 0, now, started};
        std::string extra = "null";
        if (k == "s") {
            std::optional<std::string> tag;
            if (op.has("tag")) tag = op.at("tag").as_str();
            if (op.str_or("mode", "abs") == "rel") s.schedule(TimeDelta{op.at("n").as_int()}, tag);
            else s.schedule(abs_t(op.at("n").as_int()), tag);
        } else if (k == "u") { if (op.has("tag")) s.un_schedule(op.at("tag").as_str()); else s.un_schedule(); }
        else if (k == "pop") { extra = jtime(s.pop_tag(op.at("tag").as_str())); }
        else if (k == "reset") s.reset();
        else if (k == "adv") s.advance();
        else if (k == "q") {}
        else throw std::runtime_error("harness: bad sched_unit op");
        if (!first) out += ',';
        first = false;
        out += "{\"nst\":" + jtime(s.next_scheduled_time()) + ",\"is\":" + (s.is_scheduled() ? "true" : "false") + ",\"now\":" + (s.is_scheduled_now() ? "true" : "false") + ",\"x\":" + extra + ",\"tags\":{";
        bool f2 = true;
        for (auto &tg : tags) { if (!f2) out += ','; f2 = false; jstr(out, tg); out += ":[" + std::string{s.has_tag(tg) ? "true" : "false"} + "," + jtime(s.tag_time(tg)) + "," + (s.tag_is_scheduled_now(tg) ? "true" : "false") + "]"; }
        out += "},\"events\":[";
        bool f3 = true;
        for (auto &ev : st.events) { if (!f3) out += ','; f3 = false; out += "[" + jtime(ev.first) + "," + jq(ev.second) + "]"; }
        out += "]}";
    }
    out += "]}";
    return out;
}
}
