// hgv_worker: newline-delimited JSON requests on stdin, one JSON response line per request on the original stdout.
#include "hv.h"

#include <cstdio>
#include <iostream>
#include <unistd.h>

int main(int argc, char **argv) {
    // keep the protocol channel private: anything the engine prints goes to stderr
    int proto = dup(1);
    dup2(2, 1);
    FILE *out = fdopen(proto, "w");
    hv::init_types();
    std::string line;
    while (std::getline(std::cin, line)) {
        if (line.empty()) continue;
        std::string resp;
        try {
            hv::JV req = hv::parse_json(line);
            const std::string &op = req.at("op").as_str();
            if (op == "run") resp = hv::handle_run(req);
            else if (op == "batch") resp = hv::handle_batch(req);
            else if (op == "rr") resp = hv::handle_rr(req);
            else if (op == "sched_unit") resp = hv::handle_sched_unit(req);
            else if (op == "resolve") resp = hv::handle_resolve(req);
            else if (op == "realtime") resp = hv::handle_realtime(req);
            else if (op == "ping") resp = "{\"ok\":true,\"pong\":true}";
            else if (op == "quit") break;
            else resp = "{\"ok\":false,\"harness_error\":\"unknown op\"}";
        } catch (const std::exception &e) {
            resp = "{\"ok\":false,\"harness_error\":" + hv::jq(e.what()) + "}";
        }
        fputs(resp.c_str(), out);
        fputc('\n', out);
        fflush(out);
    }
    return 0;
}
