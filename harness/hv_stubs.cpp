#include "hv.h"
namespace hv {
std::string handle_realtime(const JV &) { return "{\"ok\":false,\"harness_error\":\"not implemented\"}"; }
}
