// hgv_worker shared declarations.  The worker contains NO oracle logic: it builds what it is told, runs it and reports
// what it saw.
#pragma once
#include "jv.h"

#include <hgraph/lib/std/std_operators.h>
#include <hgraph/runtime/feedback_node.h>
#include <hgraph/runtime/lifecycle_observer.h>
#include <hgraph/runtime/nested_graph_node.h>
#include <hgraph/runtime/node_error.h>
#include <hgraph/runtime/node_scheduler.h>
#include <hgraph/runtime/runtime.h>
#include <hgraph/types/graph_wiring.h>
#include <hgraph/types/metadata/type_registry.h>
#include <hgraph/types/operator_dispatch.h>
#include <hgraph/types/time_series/ts_delta.h>
#include <hgraph/types/wired_fn.h>

#include <atomic>
#include <cstdint>
#include <functional>
#include <map>
#include <mutex>
#include <optional>
#include <set>
#include <string>
#include <unordered_map>
#include <vector>

namespace hv {
using namespace hgraph;

// ---------------------------------------------------------------- time
inline std::int64_t rel(DateTime t) { return (t - MIN_ST).count(); }
inline DateTime abs_t(std::int64_t r) { return MIN_ST + TimeDelta{r}; }
// time -> json number; MIN_DT -> -1 ("never"), MAX_DT -> "max"
std::string jtime(DateTime t);

// ---------------------------------------------------------------- types
struct Types {
    const ValueTypeMetaData *i{nullptr}, *b{nullptr}, *s{nullptr};
    const TSValueTypeMetaData *ts_int{nullptr}, *ts_bool{nullptr}, *ts_str{nullptr};
};
const Types &types();
void init_types();
const ValueTypeMetaData *parse_scalar(std::string_view name);
const TSValueTypeMetaData *parse_ts(std::string_view text);
std::string ts_name(const TSValueTypeMetaData *m);
// child schema + numeric path step for a port projection
const TSValueTypeMetaData *child_schema(const TSValueTypeMetaData *m, std::size_t index);

// ---------------------------------------------------------------- values
// JSON -> Value of the given scalar schema (int/bool/str); for compound schemas falls back to the engine's json codec.
Value value_from_json(const ValueTypeMetaData *meta, const JV &v);
// Value -> canonical JSON (sets and maps sorted; maps as [[k,v],...]; bundles as objects; invalid -> null)
void json_of(std::string &out, const ValueView &v);
std::string json_of(const ValueView &v);

// endpoint dumps: {"v":..,"av":..,"m":..,"lmt":..,"val":..,"dv":..,"cd":..,"acc":{..}}
void dump_input(std::string &out, const TSInputView &in, bool deep);
void dump_output(std::string &out, const TSOutputView &o, bool deep);

// ---------------------------------------------------------------- per-run context
struct RunCtx {
    std::vector<std::string> trace;  // JSON array elements, in order of occurrence
    std::mutex mu;                   // only contended in real-time runs (producer threads)
    bool node_events{true};
    bool snap{false};
    bool snap_deep{true};
    bool copy_back{false};            // copy the graph's global state back into the active GlobalContext after the run
    std::unordered_map<const void *, std::string> live_graphs;  // graph memory -> gid while started
    std::unordered_map<std::string, int> gen;                    // path -> generation counter
    // real-time runs
    std::map<std::string, std::shared_ptr<void>> senders;        // push source id -> PushSourceSender (shared_ptr<PushSourceSender>)
    std::atomic<int> senders_ready{0};
    std::atomic<bool> latched{false};
    std::atomic<bool> release_latch{false};
    std::atomic<std::int64_t> seq{0};                            // global happens-before counter
    std::atomic<std::int64_t> delivered{0};                      // values seen by collecting sinks
    std::atomic<std::int64_t> loop_accepted{0};                  // values a sink sent back into a push source from the evaluation thread
    std::atomic<std::int64_t> last_value{INT64_MIN};             // last (integer) value seen by a collecting sink
    std::string gid_of(const GraphView &g);
    void add(std::string s) { std::lock_guard<std::mutex> l(mu); trace.push_back(std::move(s)); }
};
extern thread_local RunCtx *g_ctx;

struct Obs : LifecycleObserver {
    RunCtx *ctx;
    explicit Obs(RunCtx *c) : ctx(c) {}
    void gev(const char *k, const GraphView &g, bool with_t);
    void nev(const char *k, const NodeView &n);
    void on_before_start_graph(const GraphView &g) override;
    void on_after_start_graph(const GraphView &g) override;
    void on_start_graph_failed(const GraphView &g) override;
    void on_before_start_node(const NodeView &n) override;
    void on_after_start_node(const NodeView &n) override;
    void on_start_node_failed(const NodeView &n) override;
    void on_before_graph_evaluation(const GraphView &g) override;
    void on_after_graph_evaluation(const GraphView &g) override;
    void on_before_node_evaluation(const NodeView &n) override;
    void on_after_node_evaluation(const NodeView &n) override;
    void on_before_stop_node(const NodeView &n) override;
    void on_after_stop_node(const NodeView &n) override;
    void on_stop_node_failed(const NodeView &n) override;
    void on_before_stop_graph(const GraphView &g) override;
    void on_after_stop_graph(const GraphView &g) override;
    void on_stop_graph_failed(const GraphView &g) override;
};

// ---------------------------------------------------------------- program interpreter
struct Program;  // immortal once created (function values point into it)
using ProgramP = std::shared_ptr<Program>;

struct SubRecord {  // context of a run-time WiredFn
    Program *prog{nullptr};
    std::string name;
    const JV *def{nullptr};
    std::vector<std::string> names_s;
    std::vector<std::string_view> names;
    std::vector<const TSValueTypeMetaData *> in_schemas;
    const TSValueTypeMetaData *out_schema{nullptr};
};

struct Program {
    JV root;  // the whole request's "prog" object, kept alive
    std::map<std::string, std::unique_ptr<SubRecord>> subs;
    std::uint64_t uid{0};
};

struct Scope {  // wiring scope: top level or inside a sub-program body
    Program *prog{nullptr};
    Wiring *w{nullptr};
    std::map<std::string, WiringPortRef> ports;
    std::map<std::string, std::shared_ptr<ErasedDelayedBindingWiringPort>> delayed;
    std::span<const WiringPortRef> args{};
    std::string prefix;  // label prefix for nodes wired in this scope
};

WiredFn make_wired_fn(Program &p, const std::string &sub_name);
WiringPortRef resolve_ref(Scope &sc, const JV &ref);
// wires every statement of `stmts`; returns nothing (ports are recorded in the scope)
void wire_stmts(Scope &sc, const JV &stmts);
// harness node factories (hv_nodes.cpp)
WiringPortRef wire_src(Scope &sc, const JV &st);
WiringPortRef wire_push_src(Scope &sc, const JV &st);
WiringPortRef wire_snode(Scope &sc, const JV &st, std::vector<WiringPortRef> ins);
WiringPortRef wire_node(Scope &sc, const JV &st, std::vector<WiringPortRef> ins);
// graph dump
void dump_graph_builder(std::string &out, const GraphBuilder &gb, int depth);

// request handlers
std::string handle_run(const JV &req);
std::string handle_sched_unit(const JV &req);
std::string handle_resolve(const JV &req);
std::string handle_realtime(const JV &req);
std::string handle_batch(const JV &req);
std::string handle_rr(const JV &req);

inline std::uint64_t next_uid() { static std::atomic<std::uint64_t> u{0}; return ++u; }

}  // namespace hv
