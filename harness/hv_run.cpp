// "run" request: wire a program, build it, run it in simulation (or real time), return everything observed.
#include "hv.h"

#include <hgraph/lib/testing/record_replay.h>
#include <hgraph/types/record_replay.h>
#include <hgraph/runtime/global_state.h>

#include <cxxabi.h>
#include <thread>

namespace hv {

std::string RunCtx::gid_of(const GraphView &g) {
    auto it = live_graphs.find(g.data());
    if (it != live_graphs.end()) return it->second;
    std::string path;
    if (g.is_root()) path = "r";
    else {
        auto parent = g.as_nested().parent_node();
        path = gid_of(parent.graph()) + "/" + std::to_string(parent.node_index());
    }
    if (!g.is_root()) { int n = ++gen[path]; path += "#" + std::to_string(n); }
    live_graphs.emplace(g.data(), path);
    return path;
}

void Obs::gev(const char *k, const GraphView &g, bool with_t) {
    RunCtx *ctx = g_ctx; if (!ctx) return;
    std::string s = "[\"";
    s += k;
    s += "\",";
    jstr(s, ctx->gid_of(g));
    if (with_t) s += "," + jtime(g.evaluation_time());
    s += "]";
    ctx->add(std::move(s));
}
void Obs::nev(const char *k, const NodeView &n) {
    RunCtx *ctx = g_ctx; if (!ctx) return;
    if (!ctx->node_events) return;
    std::string s = "[\"";
    s += k;
    s += "\",";
    jstr(s, ctx->gid_of(n.graph()));
    s += "," + std::to_string(n.node_index()) + "]";
    ctx->add(std::move(s));
}
void Obs::on_before_start_graph(const GraphView &g) {
    // a (re)started nested graph gets a fresh identity: child graph memory is reused by switch_/map_
    RunCtx *ctx = g_ctx; if (!ctx) return;
    if (!g.is_root()) ctx->live_graphs.erase(g.data());
    gev("gS", g, false);
}
void Obs::on_after_start_graph(const GraphView &g) { gev("gs", g, false); }
void Obs::on_start_graph_failed(const GraphView &g) { gev("gsf", g, false); }
void Obs::on_before_start_node(const NodeView &n) {
    RunCtx *ctx = g_ctx; if (!ctx) return;
    if (!ctx->node_events) return;
    std::string s = "[\"nS\",";
    jstr(s, ctx->gid_of(n.graph()));
    s += "," + std::to_string(n.node_index()) + ",";
    jstr(s, n.label());
    s += "]";
    ctx->add(std::move(s));
}
void Obs::on_after_start_node(const NodeView &n) { nev("ns", n); }
void Obs::on_start_node_failed(const NodeView &n) { nev("nsf", n); }
void Obs::on_before_graph_evaluation(const GraphView &g) { gev("gE", g, true); }
void Obs::on_after_graph_evaluation(const GraphView &g) {
    RunCtx *ctx = g_ctx; if (!ctx) return;
    std::string s = "[\"ge\",";
    jstr(s, ctx->gid_of(g));
    s += "," + jtime(g.evaluation_time()) + "," + jtime(g.next_scheduled_time()) + "]";
    ctx->add(std::move(s));
    if (ctx->snap && g.is_root()) {
        const DateTime t = g.evaluation_time();
        std::string sn = "[\"snap\"," + jtime(t) + ",[";
        for (std::size_t i = 0; i < g.node_count(); ++i) {
            auto n = g.node_at(i);
            if (i) sn += ',';
            sn += "{\"i\":" + std::to_string(i) + ",\"l\":";
            jstr(sn, n.label());
            sn += ",\"st\":" + jtime(g.node_scheduled_time(i));
            try {
                if (n.has_output()) { sn += ",\"out\":"; auto o = n.output(t); dump_output(sn, o, ctx->snap_deep); }
                if (n.has_input()) {
                    auto in = n.input(t);
                    if (in.schema() != nullptr && in.schema()->kind == TSTypeKind::TSB) {
                        sn += ",\"in\":[";
                        auto b = in.as_bundle();
                        for (std::size_t k = 0; k < b.size(); ++k) { if (k) sn += ','; dump_input(sn, b[k], ctx->snap_deep); }
                        sn += "]";
                    }
                }
            } catch (const std::exception &e) { sn += ",\"exc\":"; jstr(sn, e.what()); }
            sn += "}";
        }
        sn += "]]";
        ctx->add(std::move(sn));
    }
}
void Obs::on_before_node_evaluation(const NodeView &n) { nev("nE", n); }
void Obs::on_after_node_evaluation(const NodeView &n) { nev("ne", n); }
void Obs::on_before_stop_node(const NodeView &n) { nev("nP", n); }
void Obs::on_after_stop_node(const NodeView &n) { nev("np", n); }
void Obs::on_stop_node_failed(const NodeView &n) { nev("npf", n); }
void Obs::on_before_stop_graph(const GraphView &g) { gev("gP", g, false); }
void Obs::on_after_stop_graph(const GraphView &g) { gev("gp", g, false); }
void Obs::on_stop_graph_failed(const GraphView &g) { gev("gpf", g, false); }

static std::string demangle(const char *n) {
    int st = 0;
    char *d = abi::__cxa_demangle(n, nullptr, nullptr, &st);
    std::string r = (st == 0 && d) ? d : n;
    free(d);
    return r;
}

static const char *kind_name(NodeKind k) {
    switch (k) { case NodeKind::Compute: return "compute"; case NodeKind::PushSource: return "push"; case NodeKind::PullSource: return "pull"; case NodeKind::Sink: return "sink"; case NodeKind::Nested: return "nested"; }
    return "?";
}

void dump_graph_builder(std::string &out, const GraphBuilder &gb, int depth) {
    out += "{\"nodes\":[";
    for (std::size_t i = 0; i < gb.nodes().size(); ++i) {
        const auto &nb = gb.nodes()[i];
        if (i) out += ',';
        out += "{\"l\":";
        jstr(out, nb.label());
        const NodeTypeMetaData *sc = nullptr;
        try { sc = nb.type().schema(); } catch (...) {}
        if (sc != nullptr) {
            out += ",\"k\":\""; out += kind_name(sc->node_kind); out += "\",\"n\":"; jstr(out, sc->name());
        }
        if (depth < 6) {
            struct V { std::string *out; int depth; bool first; } v{&out, depth, true};
            std::string children;
            V vc{&children, depth, true};
            nb.visit_child_graphs(&vc, [](void *c, ChildGraphInspectionView child) {
                auto *v = static_cast<V *>(c);
                if (!v->first) *v->out += ',';
                v->first = false;
                if (child.graph != nullptr) dump_graph_builder(*v->out, *child.graph, v->depth + 1); else *v->out += "null";
            });
            if (!children.empty()) out += ",\"children\":[" + children + "]";
        }
        out += "}";
    }
    out += "],\"edges\":[";
    bool first = true;
    for (auto &e : gb.edges()) {
        if (!first) out += ',';
        first = false;
        out += "[" + std::to_string(graph_edge_source_node(e.source_node)) + "," + std::to_string(e.target_node) + "," + std::to_string((int)graph_edge_source_kind(e.source_node)) + ",[";
        for (std::size_t i = 0; i < e.source_path.size(); ++i) { if (i) out += ','; out += std::to_string((long long)e.source_path[i]); }
        out += "],[";
        for (std::size_t i = 0; i < e.target_path.size(); ++i) { if (i) out += ','; out += std::to_string((long long)e.target_path[i]); }
        out += "]]";
    }
    out += "],\"push_end\":";
    try { out += std::to_string(gb.type().schema()->push_source_nodes_end); } catch (...) { out += "-1"; }
    out += "}";
}

static std::vector<ProgramP> &immortal_programs() { static std::vector<ProgramP> v; return v; }

struct Prepared {
    ProgramP prog;
    std::optional<GraphExecutorBuilder> eb;
    std::string graph_json;
    std::string error;  // json object or empty
};

static std::string err_json(const char *phase, const std::exception &e) {
    std::string s = "{\"phase\":\"";
    s += phase;
    s += "\",\"type\":";
    jstr(s, demangle(typeid(e).name()));
    s += ",\"what\":";
    jstr(s, e.what());
    s += "}";
    return s;
}

using SeedMap = std::map<std::string, std::vector<std::optional<Value>>>;

// wire + finish + executor builder (observer attached by caller)
// raw recorded buffers of the last run that recorded (key -> a COPY of the buffer Value as it sat in the graph's global state)
static std::map<std::string, Value> g_raw_buffers;

static void prepare(Prepared &p, const JV &prog_json, const SeedMap *seeds = nullptr) {
    p.prog = std::make_shared<Program>();
    p.prog->root = prog_json;
    p.prog->uid = next_uid();
    {
        static std::mutex mu;
        std::lock_guard<std::mutex> l(mu);
        immortal_programs().push_back(p.prog);
    }
    const JV &pj = p.prog->root;
    const bool realtime = pj.str_or("mode", "sim") == "rt";
    std::optional<GraphBuilder> gb;
    try {
        Wiring w{WiringKind::TopLevel, WiringOptions{.is_realtime = realtime}};
        Scope sc;
        sc.prog = p.prog.get();
        sc.w = &w;
        try { wire_stmts(sc, pj.at("stmts")); }
        catch (const std::exception &e) { p.error = err_json("wire", e); return; }
        try { gb.emplace(std::move(w).finish()); }
        catch (const std::exception &e) { p.error = err_json("finish", e); return; }
    } catch (const std::exception &e) { p.error = err_json("wire", e); return; }
    dump_graph_builder(p.graph_json, *gb, 0);
    if (auto *seed = pj.get("replay_seed")) {
        for (auto &kv : seed->o) {
            const auto *schema = parse_ts(kv.second.at("schema").as_str());
            std::vector<std::optional<Value>> deltas;
            for (auto &d : kv.second.at("deltas").a) { if (d.is_null()) deltas.emplace_back(std::nullopt); else deltas.emplace_back(value_from_json(schema->delta_value_schema, d)); }
            testing::set_replay_deltas(gb->global_state(), kv.first, deltas);
        }
    }
    if (seeds != nullptr) for (auto &kv : *seeds) testing::set_replay_deltas(gb->global_state(), kv.first, kv.second);
    // hand the earlier run's buffer over as a whole-Value copy (builder.global_state().set(key, Value{old_state.get(key)}))
    if (auto *rs = pj.get("raw_seed")) for (auto &kv : rs->o) {
        auto it = g_raw_buffers.find(kv.second.as_str());
        if (it != g_raw_buffers.end()) gb->global_state().set(kv.first, Value{it->second.view()});
    }
    p.eb.emplace();
    p.eb->graph_builder(std::move(*gb));
    p.eb->mode(realtime ? GraphExecutorMode::RealTime : GraphExecutorMode::Simulation);
    if (!realtime || pj.has("start")) p.eb->start_time(abs_t(pj.int_or("start", 0)));
    if (pj.has("end")) p.eb->end_time(abs_t(pj.at("end").as_int()));
    if (realtime && pj.has("end_in_us")) {
        const auto now = std::chrono::time_point_cast<std::chrono::microseconds>(engine_clock::now());
        p.eb->end_time(DateTime{now.time_since_epoch()} + TimeDelta{pj.at("end_in_us").as_int()});
        // pin the start to the same instant: otherwise the window is measured from "whenever run() begins" and a stalled
        // machine can let the whole window elapse before that (the engine then rightly refuses end <= start)
        if (!pj.has("start") && !pj.has("start_in_us")) p.eb->start_time(DateTime{now.time_since_epoch()});
    }
    if (realtime && pj.has("start_in_us")) {
        const auto now = std::chrono::time_point_cast<std::chrono::microseconds>(engine_clock::now());
        p.eb->start_time(DateTime{now.time_since_epoch()} + TimeDelta{pj.at("start_in_us").as_int()});
    }
    p.eb->cleanup_on_error(pj.bool_or("cleanup_on_error", true));
    if (pj.has("max_wait_slice_us")) p.eb->max_wait_slice(TimeDelta{pj.at("max_wait_slice_us").as_int()});
    static Obs obs{nullptr};
    p.eb->add_lifecycle_observer(&obs);
}

// collect buffers / global state after a run (executor still alive)
static void collect_after_run(Prepared &p, GraphExecutorValue &ex, RunCtx &ctx, std::string &recorded, SeedMap *capture) {
    const JV &pj = p.prog->root;
    if (auto *keys = pj.get("record_keys")) {
        recorded = "{";
        bool first = true;
        for (auto &k : keys->a) {
            if (!first) recorded += ',';
            first = false;
            jstr(recorded, k.as_str());
            recorded += ":";
            try {
                auto deltas = testing::get_recorded_deltas(ex.view().graph().global_state(), k.as_str());
                if (capture != nullptr) {
                    (*capture)[k.as_str()] = deltas;
                    const ValueView raw = ex.view().graph().global_state().get(k.as_str());
                    if (raw.valid()) g_raw_buffers.insert_or_assign(k.as_str(), Value{raw}); else g_raw_buffers.erase(k.as_str());
                }
                recorded += "[";
                for (std::size_t i = 0; i < deltas.size(); ++i) { if (i) recorded += ','; if (deltas[i]) json_of(recorded, deltas[i]->view()); else recorded += "null"; }
                recorded += "]";
            } catch (const std::exception &e) { recorded += "{\"exc\":" + jq(e.what()) + "}"; }
        }
        recorded += "}";
    }
    // the eval_node / lower idiom: after the run the graph's global state is copied back into the state selected by the
    // GlobalContext that spans several wire + run rounds
    if (ctx.copy_back) if (auto *state = GlobalContext::active_state()) state->view().copy_from(ex.view().graph().global_state());
    if (auto *keys = pj.get("gs_keys")) {
        std::string g = "[\"gs\",{";
        bool first = true;
        for (auto &k : keys->a) {
            if (!first) g += ',';
            first = false;
            jstr(g, k.as_str());
            g += ":";
            try { auto v = ex.view().graph().global_state().get(k.as_str()); json_of(g, v); } catch (const std::exception &e) { g += "{\"exc\":" + jq(e.what()) + "}"; }
        }
        g += "}]";
        ctx.add(std::move(g));
    }
}

static void run_prepared(Prepared &p, RunCtx &ctx, std::string &error, std::string &recorded, SeedMap *capture = nullptr) {
    GraphExecutorBuilder &eb = *p.eb;  // the builder is reused across runs (C07); the observer dispatches on g_ctx
    g_ctx = &ctx;
    struct Clear { ~Clear() { g_ctx = nullptr; } } clear;
    try {
        auto ex = eb.make_executor();
        try { ex.view().run(); }
        catch (const std::exception &e) { error = err_json("run", e); }
        ctx.add("[\"phase\",\"run_returned\"]");
        collect_after_run(p, ex, ctx, recorded, capture);
    } catch (const std::exception &e) { if (error.empty()) error = err_json("make_or_release", e); }
    ctx.add("[\"phase\",\"released\"]");
}

static void emit_trace(std::string &out, RunCtx &ctx) {
    out += "[";
    for (std::size_t i = 0; i < ctx.trace.size(); ++i) { if (i) out += ','; out += ctx.trace[i]; }
    out += "]";
}

std::string handle_run(const JV &req) {
    Prepared p;
    prepare(p, req.at("prog"));
    std::string out = "{\"ok\":true";
    if (!p.error.empty()) { out += ",\"built\":false,\"error\":" + p.error + "}"; return out; }
    RunCtx ctx;
    const JV &pj = p.prog->root;
    ctx.snap = pj.bool_or("snap", false);
    ctx.snap_deep = pj.bool_or("snap_deep", true);
    ctx.node_events = pj.bool_or("node_events", true);
    std::string error, recorded;
    run_prepared(p, ctx, error, recorded);
    out += ",\"built\":true,\"graph\":" + p.graph_json + ",\"trace\":";
    emit_trace(out, ctx);
    out += ",\"error\":" + (error.empty() ? std::string{"null"} : error);
    if (!recorded.empty()) out += ",\"recorded\":" + recorded;
    out += "}";
    return out;
}

// "rr": record in prog1, seed prog2's replay buffers with the recorded Values (no JSON round trip), run prog2.
std::string handle_rr(const JV &req) {
    std::string out = "{\"ok\":true,\"runs\":[";
    g_raw_buffers.clear();
    SeedMap captured;
    for (int i = 0; i < 2; ++i) {
        Prepared p;
        SeedMap seeds;
        if (i == 1) { for (auto &kv : req.at("map").o) { auto it = captured.find(kv.second.as_str()); if (it != captured.end()) seeds[kv.first] = it->second; } }
        prepare(p, req.at(i == 0 ? "prog1" : "prog2"), i == 1 ? &seeds : nullptr);
        if (i) out += ',';
        if (!p.error.empty()) { out += "{\"built\":false,\"error\":" + p.error + "}"; if (i == 0) { out += ",null"; break; } continue; }
        RunCtx ctx;
        const JV &pj = p.prog->root;
        ctx.snap = pj.bool_or("snap", false);
        ctx.node_events = pj.bool_or("node_events", true);
        std::string error, recorded;
        run_prepared(p, ctx, error, recorded, &captured);
        out += "{\"built\":true,\"trace\":";
        emit_trace(out, ctx);
        out += ",\"error\":" + (error.empty() ? std::string{"null"} : error);
        if (!recorded.empty()) out += ",\"recorded\":" + recorded;
        out += "}";
    }
    out += "]}";
    return out;
}

// "batch": C07 — several programs, builder reuse, concurrent execution on threads.
//  {"op":"batch","progs":[prog...],"plan":[{"p":0,"thread":0,"after":-1}...]}: each plan entry is one run of program p's
//  builder; entries with the same "wave" run concurrently on their own threads; waves run in order.
std::string handle_batch(const JV &req) {
    std::vector<std::unique_ptr<Prepared>> preps;
    for (auto &pj : req.at("progs").a) { auto p = std::make_unique<Prepared>(); prepare(*p, pj); preps.push_back(std::move(p)); }
    std::string out = "{\"ok\":true,\"build_errors\":[";
    for (std::size_t i = 0; i < preps.size(); ++i) { if (i) out += ','; out += preps[i]->error.empty() ? "null" : preps[i]->error; }
    out += "],\"runs\":[";
    struct R { std::size_t p; RunCtx ctx; std::string error, recorded; std::int64_t t0{0}, t1{0}; };
    const JV &plan = req.at("plan");
    std::map<std::int64_t, std::vector<std::unique_ptr<R>>> waves;
    std::vector<R *> order;
    for (auto &e : plan.a) {
        auto r = std::make_unique<R>();
        r->p = (std::size_t)e.at("p").as_int();
        const JV &pj = preps.at(r->p)->prog->root;
        r->ctx.snap = pj.bool_or("snap", false);
        r->ctx.node_events = pj.bool_or("node_events", true);
        order.push_back(r.get());
        waves[e.int_or("wave", 0)].push_back(std::move(r));
    }
    auto now_us = [] { return (std::int64_t)std::chrono::duration_cast<std::chrono::microseconds>(std::chrono::steady_clock::now().time_since_epoch()).count(); };
    for (auto &[wv, runs] : waves) {
        const int n = (int)runs.size();
        std::vector<std::optional<GraphExecutorValue>> exs(runs.size());
        for (std::size_t i = 0; i < runs.size(); ++i) {   // supported usage: make_executor on the wiring thread
            R *r = runs[i].get();
            if (!preps[r->p]->error.empty()) continue;
            g_ctx = &r->ctx;
            try { exs[i].emplace(preps[r->p]->eb->make_executor()); } catch (const std::exception &e) { r->error = err_json("make", e); }
            g_ctx = nullptr;
        }
        std::vector<std::thread> th;
        std::atomic<int> ready{0};
        for (std::size_t i = 0; i < runs.size(); ++i) {
            R *r = runs[i].get();
            if (!exs[i].has_value()) { ++ready; continue; }
            GraphExecutorValue *ex = &*exs[i];
            auto body = [&, r, ex] {
                ++ready;
                while (ready.load() < n) std::this_thread::yield();
                g_ctx = &r->ctx;
                r->t0 = now_us();
                try { ex->view().run(); } catch (const std::exception &e) { r->error = err_json("run", e); }
                r->t1 = now_us();
                r->ctx.add("[\"phase\",\"run_returned\"]");
                g_ctx = nullptr;
            };
            if (n == 1) body(); else th.emplace_back(body);
        }
        for (auto &t : th) t.join();
        for (std::size_t i = 0; i < runs.size(); ++i) {
            R *r = runs[i].get();
            if (!exs[i].has_value()) continue;
            g_ctx = &r->ctx;
            collect_after_run(*preps[r->p], *exs[i], r->ctx, r->recorded, nullptr);
            exs[i].reset();
            r->ctx.add("[\"phase\",\"released\"]");
            g_ctx = nullptr;
        }
    }
    for (std::size_t i = 0; i < order.size(); ++i) {
        R *r = order[i];
        if (i) out += ',';
        out += "{\"p\":" + std::to_string(r->p) + ",\"t0\":" + std::to_string(r->t0) + ",\"t1\":" + std::to_string(r->t1) + ",\"trace\":";
        emit_trace(out, r->ctx);
        out += ",\"error\":" + (r->error.empty() ? std::string{"null"} : r->error);
        if (!r->recorded.empty()) out += ",\"recorded\":" + r->recorded;
        out += "}";
    }
    out += "]";
    // ---- foreign-context stage: the main thread holds a GlobalContext over a state of its own while ONE worker thread at
    // a time wires, builds, runs and releases a program (optionally inside a GlobalContext of its own). Nothing of the
    // host's state may show up in those runs and nothing of theirs in the host's state.
    if (auto *fr = req.get("foreign")) {
        GlobalState host;
        host.view().set("hv.host.secret", Value{Int{42}});
        std::string fo = "[";
        {
            GlobalContext gc(host);
            bool first = true;
            for (auto &e : fr->a) {
                const std::size_t pi = (std::size_t)e.at("p").as_int();
                const bool own = e.bool_or("own_ctx", false);
                const JV &pj = req.at("progs").a.at(pi);
                RunCtx c;
                c.snap = pj.bool_or("snap", false);
                c.node_events = pj.bool_or("node_events", true);
                std::string err, rec, berr;
                std::thread t([&] {
                    try {
                        std::optional<GlobalContext> mine;
                        if (own) mine.emplace();
                        Prepared q;
                        prepare(q, pj);
                        if (!q.error.empty()) { berr = q.error; return; }
                        run_prepared(q, c, err, rec);
                    } catch (const std::exception &ex) { err = err_json("foreign", ex); }
                });
                t.join();
                if (!first) fo += ',';
                first = false;
                fo += "{\"p\":" + std::to_string(pi) + ",\"own_ctx\":" + (own ? "true" : "false") + ",\"trace\":";
                emit_trace(fo, c);
                fo += ",\"error\":" + (err.empty() ? std::string{"null"} : err) + ",\"build_error\":" + (berr.empty() ? std::string{"null"} : berr);
                if (!rec.empty()) fo += ",\"recorded\":" + rec;
                fo += "}";
            }
        }
        fo += "]";
        out += ",\"foreign_runs\":" + fo + ",\"host_size\":" + std::to_string(host.view().size()) +
               ",\"host_secret\":" + (host.view().contains("hv.host.secret") ? "true" : "false");
    }
    // ---- shared-context stage: ONE GlobalContext (over a state of its own) spans several wire + build + run rounds on the main
    // thread, and after every run the graph's global state is copied back into it (what eval_node and lower do), so each
    // wiring is seeded with whatever the earlier rounds left behind.
    if (auto *sh = req.get("shared")) {
        std::string so = "[";
        {
            GlobalContext gc;
            bool first = true;
            for (auto &e : sh->a) {
                const std::size_t pi = (std::size_t)e.as_int();
                const JV &pj = req.at("progs").a.at(pi);
                RunCtx c;
                c.snap = pj.bool_or("snap", false);
                c.node_events = pj.bool_or("node_events", true);
                c.copy_back = true;
                std::string err, rec, berr;
                try {
                    Prepared q;
                    prepare(q, pj);
                    if (!q.error.empty()) berr = q.error; else run_prepared(q, c, err, rec);
                } catch (const std::exception &ex) { err = err_json("shared", ex); }
                if (!first) so += ',';
                first = false;
                so += "{\"p\":" + std::to_string(pi) + ",\"trace\":";
                emit_trace(so, c);
                so += ",\"error\":" + (err.empty() ? std::string{"null"} : err) + ",\"build_error\":" + (berr.empty() ? std::string{"null"} : berr);
                if (!rec.empty()) so += ",\"recorded\":" + rec;
                // what eval_node hands back: the buffer as it reads from the CONTEXT's state after the copy-back
                if (auto *keys = pj.get("record_keys")) {
                    so += ",\"recorded_ctx\":{";
                    bool f2 = true;
                    for (auto &k : keys->a) {
                        if (!f2) so += ',';
                        f2 = false;
                        jstr(so, k.as_str());
                        so += ':';
                        try {
                            auto deltas = testing::get_recorded_deltas(GlobalContext::active_state()->view(), k.as_str());
                            so += '[';
                            for (std::size_t i = 0; i < deltas.size(); ++i) { if (i) so += ','; if (deltas[i]) json_of(so, deltas[i]->view()); else so += "null"; }
                            so += ']';
                        } catch (const std::exception &ex) { so += "{\"exc\":" + jq(ex.what()) + "}"; }
                    }
                    so += '}';
                }
                so += "}";
            }
        }
        so += "]";
        out += ",\"shared_runs\":" + so;
    }
    out += "}";
    return out;
}

}  // namespace hv

// =====================================================================================================================
// "realtime": run a real-time program on a runner thread while producer threads and the controller follow a phase
// script (1 = free running, 2 = consumer latched inside a sink evaluation, 3 = loop idle/waiting, 4 = racing
// request_stop, 5 = after run() returned).  Everything is logged with a global sequence counter; no oracle here.
namespace hv {
namespace {
std::int64_t wall_us() { return (std::int64_t)std::chrono::duration_cast<std::chrono::microseconds>(std::chrono::steady_clock::now().time_since_epoch()).count(); }
template <class Pred> bool wait_for(Pred &&p, std::int64_t timeout_us) {
    const std::int64_t end = wall_us() + timeout_us;
    while (!p()) { if (wall_us() > end) return false; std::this_thread::sleep_for(std::chrono::microseconds(50)); }
    return true;
}
}  // namespace

std::string handle_realtime(const JV &req) {
    Prepared p;
    prepare(p, req.at("prog"));
    std::string out = "{\"ok\":true";
    if (!p.error.empty()) { out += ",\"built\":false,\"error\":" + p.error + "}"; return out; }
    const JV &cfg = req.at("rt");
    RunCtx ctx;
    ctx.node_events = p.prog->root.bool_or("node_events", false);
    std::vector<std::string> clog;  // controller + producer logs (merged at the end)
    std::mutex clog_mu;
    auto log = [&](std::string s) { std::lock_guard<std::mutex> l(clog_mu); clog.push_back(std::move(s)); };
    std::string run_error;
    std::atomic<bool> run_done{false};
    std::atomic<std::int64_t> accepted{0};
    struct SendRec { std::int64_t sb, sa, v; };
    std::vector<SendRec> acc_recs;   // accepted sends (guarded by clog_mu)
    std::atomic<int> phase{0};
    bool watchdog_ok = true;
    std::string window_json = "null";
    {
        g_ctx = &ctx;  // make_executor may start nothing, but keep lifecycle events attributable
        auto ex = p.eb->make_executor();
        g_ctx = nullptr;
        const std::int64_t t_start = wall_us();
        window_json = "[" + jtime(ex.view().start_time()) + "," + jtime(ex.view().end_time()) + "]";
        if (cfg.bool_or("stop_before_run", false)) {
            // a stop request that arrives before run() has begun (another thread racing the start) must end that run
            ex.view().request_stop();
            log("[\"ctl\",\"stop_requested_before_run\"]");
        }
        std::thread runner([&] {
            g_ctx = &ctx;
            try { ex.view().run(); } catch (const std::exception &e) { run_error = err_json("run", e); }
            ctx.add("[\"phase\",\"run_returned\"]");
            g_ctx = nullptr;
            run_done.store(true);
        });
        const int n_push = (int)cfg.int_or("n_push", 0);
        const bool senders_ok = wait_for([&] { return ctx.senders_ready.load() >= n_push || run_done.load(); }, 10'000'000);
        if (!senders_ok) log("[\"ctl\",\"senders_not_ready\"]");
        // locate push source nodes for pending sampling
        std::map<std::string, std::size_t> push_idx;
        try {
            auto g = ex.view().graph();
            for (std::size_t i = 0; i < g.node_count(); ++i) { auto n = g.node_at(i); if (n.node_kind() == NodeKind::PushSource) push_idx[std::string{n.label()}] = i; }
        } catch (...) {}
        auto sender_of = [&](const std::string &id) -> PushSourceSender * {
            auto it = ctx.senders.find(id);
            return it == ctx.senders.end() ? nullptr : static_cast<PushSourceSender *>(it->second.get());
        };
        const JV &producers = cfg.at("producers");
        const std::size_t np = producers.a.size();
        std::vector<std::atomic<int>> reached(np);
        for (auto &r : reached) r.store(0);
        std::vector<std::thread> pth;
        for (std::size_t pi = 0; pi < np; ++pi) {
            pth.emplace_back([&, pi] {
                const JV &steps = producers.a[pi];
                for (int ph = 1; ph <= 5; ++ph) {
                    while (phase.load() < ph) std::this_thread::sleep_for(std::chrono::microseconds(20));
                    for (auto &st : steps.a) {
                        if (st.at("ph").as_int() != ph) continue;
                        const std::int64_t d = st.int_or("delay_us", 0);
                        if (d > 0) std::this_thread::sleep_for(std::chrono::microseconds(d));
                        const std::string src = st.str_or("src", "ps");
                        PushSourceSender *s = sender_of(src);
                        const bool blocking = st.bool_or("blocking", false);
                        const std::int64_t v = st.at("v").as_int();
                        const std::int64_t sb = ctx.seq.fetch_add(1) + 1, wb = wall_us();
                        bool res = false;
                        std::string exc;
                        if (s == nullptr) exc = "no sender";
                        else {
                            try { res = blocking ? s->send_blocking(Value{Int{v}}) : s->try_send(Value{Int{v}}); }
                            catch (const std::exception &e) { exc = e.what(); }
                        }
                        if (res) accepted.fetch_add(1);
                        const std::int64_t sa = ctx.seq.fetch_add(1) + 1, wa = wall_us();
                        if (res) { std::lock_guard<std::mutex> l(clog_mu); acc_recs.push_back({sb, sa, v}); }
                        std::string pend = "null";
                        if (res && !run_done.load()) {
                            auto it = push_idx.find(src);
                            if (it != push_idx.end()) { try { auto m = ex.view().graph().node_at(it->second).inspection_metrics(); if (m.pending_items) pend = std::to_string(*m.pending_items); } catch (...) {} }
                        }
                        log("[\"send\"," + std::to_string(pi) + "," + jq(src) + "," + std::to_string(v) + "," + (blocking ? "true" : "false") + "," + std::to_string(ph) + "," + std::to_string(sb) + "," +
                            (res ? "true" : "false") + "," + std::to_string(sa) + "," + std::to_string(wb - t_start) + "," + std::to_string(wa - t_start) + "," + pend + "," + (exc.empty() ? "null" : jq(exc)) + "]");
                    }
                    reached[pi].store(ph);
                }
            });
        }
        auto all_reached = [&](int ph) { for (auto &r : reached) if (r.load() < ph) return false; return true; };
        auto drain = [&](int ph) {
            if (cfg.bool_or("value_drain", false)) {
                // conflating source: the state that must eventually be delivered is the value of a MAXIMAL accepted send (no
                // other accepted send started after it completed) - whichever of them entered the source last. All sends of
                // the phases so far have returned, so the set is final; wait (no timing assumption) until the sink saw one.
                std::vector<SendRec> recs;
                { std::lock_guard<std::mutex> l(clog_mu); recs = acc_recs; }
                std::vector<std::int64_t> maximal;
                for (auto &a : recs) { bool later = false; for (auto &b : recs) if (b.sb > a.sa) { later = true; break; } if (!later) maximal.push_back(a.v); }
                const bool ok = recs.empty() || wait_for([&] { const auto lv = ctx.last_value.load(); for (auto m : maximal) if (m == lv) return true; return run_done.load(); },
                                                         cfg.int_or("drain_timeout_us", 20'000'000));
                log("[\"drain\"," + std::to_string(ph) + "," + (ok ? "true" : "false") + "," + std::to_string(ctx.delivered.load()) + "," + std::to_string(accepted.load()) + "," + std::to_string(wall_us() - t_start) + "]");
                return;
            }
            if (!cfg.bool_or("count_drain", true)) { std::this_thread::sleep_for(std::chrono::milliseconds(20)); return; }
            const bool ok = wait_for([&] { return ctx.delivered.load() >= accepted.load() + ctx.loop_accepted.load() || run_done.load(); }, cfg.int_or("drain_timeout_us", 20'000'000));
            log("[\"drain\"," + std::to_string(ph) + "," + (ok ? "true" : "false") + "," + std::to_string(ctx.delivered.load()) + "," + std::to_string(accepted.load()) + "," + std::to_string(wall_us() - t_start) + "]");
        };
        phase.store(1);
        wait_for([&] { return all_reached(1); }, 30'000'000);
        if (cfg.has("latch")) {
            const JV &l = cfg.at("latch");
            PushSourceSender *s = sender_of(l.str_or("src", "ps"));
            bool res = false;
            const std::int64_t sb = ctx.seq.fetch_add(1) + 1;
            if (s != nullptr) { try { res = s->send_blocking(Value{Int{l.at("v").as_int()}}); } catch (...) {} }
            if (res) accepted.fetch_add(1);
            const std::int64_t sa = ctx.seq.fetch_add(1) + 1;
            if (res) { const std::int64_t lv = l.at("v").as_int(); std::lock_guard<std::mutex> lk(clog_mu); acc_recs.push_back({sb, sa, lv}); }
            const bool got = res && wait_for([&] { return ctx.latched.load() || run_done.load(); }, 10'000'000);
            log("[\"latch\"," + std::to_string(l.at("v").as_int()) + "," + std::to_string(sb) + "," + (res ? "true" : "false") + "," + std::to_string(sa) + "," + (got && ctx.latched.load() ? "true" : "false") + "," +
                std::to_string(ctx.delivered.load()) + "," + std::to_string(accepted.load()) + "]");
        }
        phase.store(2);
        wait_for([&] { return all_reached(2); }, 30'000'000);
        ctx.release_latch.store(true);
        log("[\"released\"," + std::to_string(ctx.seq.fetch_add(1) + 1) + "]");
        drain(2);
        phase.store(3);
        wait_for([&] { return all_reached(3); }, 30'000'000);
        drain(3);
        phase.store(4);
        if (cfg.has("stop_after_us")) {
            const std::int64_t d = cfg.at("stop_after_us").as_int();
            if (d > 0) std::this_thread::sleep_for(std::chrono::microseconds(d));
            const std::int64_t sb = ctx.seq.fetch_add(1) + 1, wb = wall_us();
            ex.view().request_stop();
            const std::int64_t sa = ctx.seq.fetch_add(1) + 1, wa = wall_us();
            log("[\"stop_req\"," + std::to_string(sb) + "," + std::to_string(sa) + "," + std::to_string(wb - t_start) + "," + std::to_string(wa - t_start) + "]");
        }
        wait_for([&] { return all_reached(4); }, 30'000'000);
        watchdog_ok = wait_for([&] { return run_done.load(); }, cfg.int_or("watchdog_us", 20'000'000));
        log("[\"run_done\"," + std::string{watchdog_ok ? "true" : "false"} + "," + std::to_string(wall_us() - t_start) + "," + std::to_string(ctx.seq.fetch_add(1) + 1) + "]");
        if (!watchdog_ok) { ex.view().request_stop(); ctx.release_latch.store(true); wait_for([&] { return run_done.load(); }, 20'000'000); }
        runner.join();
        phase.store(5);
        for (auto &t : pth) t.join();
        g_ctx = &ctx;
    }
    g_ctx = nullptr;
    ctx.add("[\"phase\",\"released\"]");
    out += ",\"built\":true,\"graph\":" + p.graph_json + ",\"trace\":";
    emit_trace(out, ctx);
    out += ",\"log\":[";
    for (std::size_t i = 0; i < clog.size(); ++i) { if (i) out += ','; out += clog[i]; }
    out += "],\"window\":" + window_json + ",\"watchdog_ok\":";
    out += watchdog_ok ? "true" : "false";
    out += ",\"error\":" + (run_error.empty() ? std::string{"null"} : run_error) + "}";
    return out;
}
}  // namespace hv
