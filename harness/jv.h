// Tiny JSON DOM + writer helpers for the hgv_worker protocol (no dependency on the engine).
#pragma once
#include <cstdint>
#include <cstdlib>
#include <map>
#include <memory>
#include <stdexcept>
#include <string>
#include <string_view>
#include <utility>
#include <vector>

namespace hv {

struct JV {
    enum K { Null, Bool, Int, Dbl, Str, Arr, Obj } k{Null};
    bool b{false};
    std::int64_t i{0};
    double d{0};
    std::string s;
    std::vector<JV> a;
    std::vector<std::pair<std::string, JV>> o;

    bool is_null() const { return k == Null; }
    bool is_str() const { return k == Str; }
    bool is_int() const { return k == Int; }
    bool is_arr() const { return k == Arr; }
    bool is_obj() const { return k == Obj; }
    bool is_bool() const { return k == Bool; }
    const JV *get(std::string_view key) const {
        if (k != Obj) return nullptr;
        for (auto &kv : o) if (kv.first == key) return &kv.second;
        return nullptr;
    }
    bool has(std::string_view key) const { auto *p = get(key); return p && !p->is_null(); }
    const JV &at(std::string_view key) const {
        auto *p = get(key);
        if (!p) throw std::runtime_error("harness: missing key '" + std::string{key} + "'");
        return *p;
    }
    std::int64_t as_int() const {
        if (k == Int) return i;
        if (k == Bool) return b ? 1 : 0;
        if (k == Dbl) return (std::int64_t)d;
        throw std::runtime_error("harness: expected int");
    }
    bool as_bool() const {
        if (k == Bool) return b;
        if (k == Int) return i != 0;
        throw std::runtime_error("harness: expected bool");
    }
    const std::string &as_str() const {
        if (k != Str) throw std::runtime_error("harness: expected string");
        return s;
    }
    std::int64_t int_or(std::string_view key, std::int64_t dflt) const { auto *p = get(key); return (p && !p->is_null()) ? p->as_int() : dflt; }
    bool bool_or(std::string_view key, bool dflt) const { auto *p = get(key); return (p && !p->is_null()) ? p->as_bool() : dflt; }
    std::string str_or(std::string_view key, std::string dflt) const { auto *p = get(key); return (p && !p->is_null()) ? p->as_str() : dflt; }
};

struct JParser {
    std::string_view t;
    std::size_t p{0};
    [[noreturn]] void fail(const char *m) { throw std::runtime_error(std::string{"harness: json parse: "} + m + " at " + std::to_string(p)); }
    void ws() { while (p < t.size() && (t[p] == ' ' || t[p] == '\n' || t[p] == '\t' || t[p] == '\r')) ++p; }
    JV parse() { ws(); JV v = val(); ws(); if (p != t.size()) fail("trailing"); return v; }
    JV val() {
        ws();
        if (p >= t.size()) fail("eof");
        char c = t[p];
        JV v;
        if (c == '{') {
            v.k = JV::Obj; ++p; ws();
            if (p < t.size() && t[p] == '}') { ++p; return v; }
            for (;;) {
                ws(); if (p >= t.size() || t[p] != '"') fail("key");
                std::string key = str(); ws();
                if (p >= t.size() || t[p] != ':') fail("colon"); ++p;
                v.o.emplace_back(std::move(key), val()); ws();
                if (p < t.size() && t[p] == ',') { ++p; continue; }
                if (p < t.size() && t[p] == '}') { ++p; break; }
                fail("obj");
            }
            return v;
        }
        if (c == '[') {
            v.k = JV::Arr; ++p; ws();
            if (p < t.size() && t[p] == ']') { ++p; return v; }
            for (;;) {
                v.a.push_back(val()); ws();
                if (p < t.size() && t[p] == ',') { ++p; continue; }
                if (p < t.size() && t[p] == ']') { ++p; break; }
                fail("arr");
            }
            return v;
        }
        if (c == '"') { v.k = JV::Str; v.s = str(); return v; }
        if (t.compare(p, 4, "true") == 0) { p += 4; v.k = JV::Bool; v.b = true; return v; }
        if (t.compare(p, 5, "false") == 0) { p += 5; v.k = JV::Bool; v.b = false; return v; }
        if (t.compare(p, 4, "null") == 0) { p += 4; return v; }
        std::size_t s0 = p; bool dbl = false;
        if (t[p] == '-') ++p;
        while (p < t.size() && ((t[p] >= '0' && t[p] <= '9') || t[p] == '.' || t[p] == 'e' || t[p] == 'E' || t[p] == '+' || t[p] == '-')) { if (t[p] == '.' || t[p] == 'e' || t[p] == 'E') dbl = true; ++p; }
        if (p == s0) fail("value");
        std::string num{t.substr(s0, p - s0)};
        if (dbl) { v.k = JV::Dbl; v.d = std::strtod(num.c_str(), nullptr); } else { v.k = JV::Int; v.i = std::strtoll(num.c_str(), nullptr, 10); }
        return v;
    }
    std::string str() {
        ++p; std::string out;
        while (p < t.size() && t[p] != '"') {
            char c = t[p++];
            if (c == '\\') {
                if (p >= t.size()) fail("esc");
                char e = t[p++];
                switch (e) {
                    case 'n': out += '\n'; break; case 't': out += '\t'; break; case 'r': out += '\r'; break;
                    case 'b': out += '\b'; break; case 'f': out += '\f'; break;
                    case 'u': { if (p + 4 > t.size()) fail("u"); unsigned cp = std::strtoul(std::string{t.substr(p, 4)}.c_str(), nullptr, 16); p += 4;
                        if (cp < 0x80) out += (char)cp; else if (cp < 0x800) { out += (char)(0xC0 | (cp >> 6)); out += (char)(0x80 | (cp & 0x3F)); } else { out += (char)(0xE0 | (cp >> 12)); out += (char)(0x80 | ((cp >> 6) & 0x3F)); out += (char)(0x80 | (cp & 0x3F)); } break; }
                    default: out += e;
                }
            } else out += c;
        }
        if (p >= t.size()) fail("unterminated string");
        ++p; return out;
    }
};

inline JV parse_json(std::string_view text) { JParser ps{text}; return ps.parse(); }

inline void jstr(std::string &out, std::string_view s) {
    out += '"';
    for (unsigned char c : s) {
        switch (c) {
            case '"': out += "\\\""; break; case '\\': out += "\\\\"; break; case '\n': out += "\\n"; break;
            case '\t': out += "\\t"; break; case '\r': out += "\\r"; break;
            default: if (c < 0x20) { char b[8]; snprintf(b, sizeof b, "\\u%04x", c); out += b; } else out += (char)c;
        }
    }
    out += '"';
}
inline std::string jq(std::string_view s) { std::string o; jstr(o, s); return o; }

}  // namespace hv
