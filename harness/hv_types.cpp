#include "hv.h"

#include <hgraph/types/value/json_codec.h>

#include <algorithm>

namespace hv {

thread_local RunCtx *g_ctx = nullptr;

std::string jtime(DateTime t) {
    if (t == MIN_DT) return "-1";
    if (t >= MAX_DT) return "\"max\"";
    if (t < MIN_ST) return "\"pre" + std::to_string((t - MIN_DT).count()) + "\"";
    return std::to_string(rel(t));
}

static Types g_types;
const Types &types() { return g_types; }

void init_types() {
    static std::once_flag once;
    std::call_once(once, [] {
        stdlib::register_standard_operators();
        auto &reg = TypeRegistry::instance();
        g_types.i = reg.register_scalar<Int>("int");
        g_types.b = reg.register_scalar<Bool>("bool");
        g_types.s = reg.register_scalar<Str>("str");
        g_types.ts_int = reg.ts(g_types.i);
        g_types.ts_bool = reg.ts(g_types.b);
        g_types.ts_str = reg.ts(g_types.s);
    });
}

const ValueTypeMetaData *parse_scalar(std::string_view name) {
    if (name == "int") return g_types.i;
    if (name == "bool") return g_types.b;
    if (name == "str") return g_types.s;
    if (name == "ints") return TypeRegistry::instance().list(g_types.i, 0, true);
    throw std::runtime_error("harness: unknown scalar type '" + std::string{name} + "'");
}

namespace {
struct TP {
    std::string_view t;
    std::size_t p{0};
    [[noreturn]] void fail(const char *m) { throw std::runtime_error(std::string{"harness: schema parse: "} + m + " in '" + std::string{t} + "'"); }
    void ws() { while (p < t.size() && t[p] == ' ') ++p; }
    bool eat(char c) { ws(); if (p < t.size() && t[p] == c) { ++p; return true; } return false; }
    void need(char c) { if (!eat(c)) fail("expected delimiter"); }
    std::string ident() { ws(); std::size_t s = p; while (p < t.size() && (isalnum((unsigned char)t[p]) || t[p] == '_')) ++p; if (s == p) fail("ident"); return std::string{t.substr(s, p - s)}; }
    std::size_t num() { ws(); std::size_t s = p; while (p < t.size() && isdigit((unsigned char)t[p])) ++p; if (s == p) fail("num"); return std::stoul(std::string{t.substr(s, p - s)}); }
    const TSValueTypeMetaData *ts() {
        auto &reg = TypeRegistry::instance();
        std::string k = ident();
        if (k == "SIGNAL") return reg.signal();
        need('[');
        const TSValueTypeMetaData *r = nullptr;
        if (k == "TS") { r = reg.ts(parse_scalar(ident())); }
        else if (k == "TSS") { r = reg.tss(parse_scalar(ident())); }
        else if (k == "TSD") { auto *kt = parse_scalar(ident()); need(','); r = reg.tsd(kt, ts()); }
        else if (k == "TSL") { auto *e = ts(); std::size_t n = 0; if (eat(',')) n = num(); r = reg.tsl(e, n); }
        else if (k == "TSWD") { auto *e = parse_scalar(ident()); need(','); std::size_t range = num(); std::size_t mn = 0; if (eat(',')) mn = num(); r = reg.tsw_duration(e, TimeDelta{(std::int64_t)range}, TimeDelta{(std::int64_t)mn}); }   // duration window
        else if (k == "TSW") { auto *e = parse_scalar(ident()); need(','); std::size_t per = num(); std::size_t mn = 0; if (eat(',')) mn = num(); r = reg.tsw(e, per, mn); }
        else if (k == "REF") { r = reg.ref(ts()); }
        else if (k == "TSB") {
            std::vector<std::pair<std::string, const TSValueTypeMetaData *>> f;
            for (;;) { std::string n = ident(); need(':'); f.emplace_back(n, ts()); if (!eat(',')) break; }
            r = reg.un_named_tsb(f);
        } else fail("kind");
        need(']');
        return r;
    }
};
}  // namespace

const TSValueTypeMetaData *parse_ts(std::string_view text) {
    static std::mutex mu;
    static std::map<std::string, const TSValueTypeMetaData *, std::less<>> cache;
    std::lock_guard<std::mutex> l(mu);
    if (auto it = cache.find(text); it != cache.end()) return it->second;
    TP p{text};
    auto *r = p.ts();
    p.ws();
    if (p.p != text.size()) p.fail("trailing");
    cache.emplace(std::string{text}, r);
    return r;
}

std::string ts_name(const TSValueTypeMetaData *m) {
    if (m == nullptr) return "null";
    switch (m->kind) {
        case TSTypeKind::SIGNAL: return "SIGNAL";
        case TSTypeKind::TS: return "TS[" + std::string{m->value_type ? m->value_type->name() : "?"} + "]";
        case TSTypeKind::TSS: return "TSS[" + std::string{m->value_type && m->value_type->element_type ? m->value_type->element_type->name() : "?"} + "]";
        case TSTypeKind::TSD: return "TSD[" + std::string{m->key_type()->name()} + "," + ts_name(m->element_ts()) + "]";
        case TSTypeKind::TSL: return "TSL[" + ts_name(m->element_ts()) + "," + std::to_string(m->fixed_size()) + "]";
        case TSTypeKind::TSW: return "TSW[" + std::string{m->value_type ? m->value_type->name() : "?"} + "," + std::to_string(m->period()) + "," + std::to_string(m->min_period()) + "]";
        case TSTypeKind::REF: return "REF[" + ts_name(m->referenced_ts()) + "]";
        case TSTypeKind::TSB: { std::string s = "TSB["; for (std::size_t i = 0; i < m->field_count(); ++i) { if (i) s += ","; s += m->fields()[i].name; s += ":"; s += ts_name(m->fields()[i].type); } return s + "]"; }
        default: return std::string{m->name()};
    }
}

const TSValueTypeMetaData *child_schema(const TSValueTypeMetaData *m, std::size_t index) {
    if (m == nullptr) throw std::runtime_error("harness: child of null schema");
    switch (m->kind) {
        case TSTypeKind::TSB: if (index >= m->field_count()) throw std::runtime_error("harness: TSB child index"); return m->fields()[index].type;
        case TSTypeKind::TSL: return m->element_ts();
        default: throw std::runtime_error("harness: schema has no indexed children: " + ts_name(m));
    }
}

Value value_from_json(const ValueTypeMetaData *meta, const JV &v) {
    if (meta == g_types.i) return Value{Int{v.as_int()}};
    if (meta == g_types.b) return Value{Bool{v.as_bool()}};
    if (meta == g_types.s) return Value{Str{v.as_str()}};
    // compound (canonical delta shapes): the json text is carried as a string in engine wire format
    if (v.is_str()) return from_json_string(meta, v.s);
    throw std::runtime_error("harness: value_from_json: unsupported schema " + std::string{meta ? meta->name() : "null"});
}

void json_of(std::string &out, const ValueView &v) {
    if (!v.valid()) { out += "null"; return; }
    const auto *sc = v.schema();
    const auto kind = sc->try_value_kind();
    if (!kind.has_value()) { jstr(out, v.to_string()); return; }
    switch (*kind) {
        case ValueTypeKind::Atomic: {
            if (sc == g_types.i) { out += std::to_string(v.checked_as<Int>()); return; }
            if (sc == g_types.b) { out += v.checked_as<Bool>() ? "true" : "false"; return; }
            if (sc == g_types.s) { jstr(out, v.checked_as<Str>()); return; }
            jstr(out, v.to_string());
            return;
        }
        case ValueTypeKind::Bundle: {
            auto b = v.as_bundle();
            out += '{';
            for (std::size_t i = 0; i < b.size(); ++i) {
                if (i) out += ',';
                jstr(out, sc->fields[i].name ? sc->fields[i].name : std::to_string(i).c_str());
                out += ':';
                if (b.element_valid(i)) json_of(out, b.at(i)); else out += "null";
            }
            out += '}';
            return;
        }
        case ValueTypeKind::Tuple:
        case ValueTypeKind::List:
        case ValueTypeKind::CyclicBuffer:
        case ValueTypeKind::Queue: {
            auto ix = v.as_indexed_view();
            out += '[';
            for (std::size_t i = 0; i < ix.size(); ++i) {
                if (i) out += ',';
                if (ix.element_valid(i)) json_of(out, ix.at(i)); else out += "null";
            }
            out += ']';
            return;
        }
        case ValueTypeKind::Set: {
            std::vector<std::string> el;
            for (auto e : v.as_set()) el.push_back(json_of(e));
            std::sort(el.begin(), el.end());
            out += '[';
            for (std::size_t i = 0; i < el.size(); ++i) { if (i) out += ','; out += el[i]; }
            out += ']';
            return;
        }
        case ValueTypeKind::Map: {
            std::vector<std::string> el;
            for (const auto &[k, val] : v.as_map()) { std::string s = "["; json_of(s, k); s += ','; json_of(s, val); s += ']'; el.push_back(std::move(s)); }
            std::sort(el.begin(), el.end());
            out += '[';
            for (std::size_t i = 0; i < el.size(); ++i) { if (i) out += ','; out += el[i]; }
            out += ']';
            return;
        }
        default: jstr(out, v.to_string()); return;
    }
}

std::string json_of(const ValueView &v) { std::string s; json_of(s, v); return s; }

namespace {
template <class F> void guarded(std::string &out, F &&f) {
    std::string tmp;
    try { f(tmp); out += tmp; }
    catch (const std::exception &e) { out += "{\"exc\":"; jstr(out, e.what()); out += '}'; }
}

template <class R> void jrange(std::string &out, R &&r) {
    std::vector<std::string> el;
    for (auto e : r) el.push_back(json_of(e));
    std::sort(el.begin(), el.end());
    out += '[';
    for (std::size_t i = 0; i < el.size(); ++i) { if (i) out += ','; out += el[i]; }
    out += ']';
}

template <class V> void dump_common(std::string &out, const V &e) {
    bool valid = false, mod = false;
    out += "\"v\":";
    guarded(out, [&](std::string &o) { valid = e.valid(); o += valid ? "true" : "false"; });
    out += ",\"av\":";
    guarded(out, [&](std::string &o) { o += e.all_valid() ? "true" : "false"; });
    out += ",\"m\":";
    guarded(out, [&](std::string &o) { mod = e.modified(); o += mod ? "true" : "false"; });
    out += ",\"lmt\":";
    guarded(out, [&](std::string &o) { o += jtime(e.last_modified_time()); });
    const auto *sc = e.schema();
    if (sc != nullptr && sc->kind == TSTypeKind::REF) { out += ",\"ref\":true"; return; }
    out += ",\"val\":";
    if (valid) guarded(out, [&](std::string &o) { json_of(o, e.value()); }); else out += "null";
    out += ",\"dv\":";
    guarded(out, [&](std::string &o) { json_of(o, e.delta_value()); });
}
}  // namespace

void dump_input(std::string &out, const TSInputView &in, bool deep) {
    out += '{';
    dump_common(out, in);
    const auto *sc = in.schema();
    bool mod = false, valid = false;
    try { mod = in.modified(); valid = in.valid(); } catch (...) {}
    if (sc != nullptr && sc->kind != TSTypeKind::REF) {
        if (mod) { out += ",\"cd\":"; guarded(out, [&](std::string &o) { Value d = capture_delta(in); json_of(o, d.view()); }); }
        if (deep) {
            switch (sc->kind) {
                case TSTypeKind::TSS: {
                    out += ",\"acc\":";
                    guarded(out, [&](std::string &o) { auto s = in.as_set(); o += "{\"added\":"; jrange(o, s.added()); o += ",\"removed\":"; jrange(o, s.removed()); o += ",\"size\":" + std::to_string(s.size()); o += '}'; });
                    break;
                }
                case TSTypeKind::TSD: {
                    out += ",\"acc\":";
                    guarded(out, [&](std::string &o) {
                        auto d = in.as_dict();
                        o += "{\"added\":"; jrange(o, d.added_keys()); o += ",\"removed\":"; jrange(o, d.removed_keys());
                        o += ",\"modified\":"; jrange(o, d.modified_keys()); o += ",\"keys\":"; jrange(o, d.keys());
                        o += ",\"valid_keys\":"; jrange(o, d.valid_keys()); o += ",\"size\":" + std::to_string(d.size());
                        o += ",\"ch\":[";
                        std::vector<std::string> el;
                        for (const auto &[k, c] : d.items()) { std::string s = "["; json_of(s, k); s += ','; dump_input(s, c, deep); s += ']'; el.push_back(std::move(s)); }
                        std::sort(el.begin(), el.end());
                        for (std::size_t i = 0; i < el.size(); ++i) { if (i) o += ','; o += el[i]; }
                        o += "]}";
                    });
                    break;
                }
                case TSTypeKind::TSB: {
                    out += ",\"ch\":";
                    guarded(out, [&](std::string &o) { auto b = in.as_bundle(); o += '['; for (std::size_t i = 0; i < b.size(); ++i) { if (i) o += ','; dump_input(o, b[i], deep); } o += ']'; });
                    // the filtered iteration accessors, read independently of the per-child flags above
                    out += ",\"it\":";
                    guarded(out, [&](std::string &o) { auto b = in.as_bundle(); std::size_t k = 0; o += "{\"mi\":["; for (const auto &[n, c] : b.modified_items()) { if (k++) o += ','; jstr(o, std::string{n}); } o += "],\"vi\":["; k = 0; for (const auto &[n, c] : b.valid_items()) { if (k++) o += ','; jstr(o, std::string{n}); }
                        std::size_t mv = 0, vv = 0; for (auto c : b.modified_values()) { (void)c; ++mv; } for (auto c : b.valid_values()) { (void)c; ++vv; } o += "],\"mv\":" + std::to_string(mv) + ",\"vv\":" + std::to_string(vv) + ",\"names\":["; k = 0; for (auto n : b.keys()) { if (k++) o += ','; jstr(o, std::string{n}); } o += "]}"; });
                    break;
                }
                case TSTypeKind::TSL: {
                    out += ",\"ch\":";
                    guarded(out, [&](std::string &o) { auto b = in.as_list(); o += '['; for (std::size_t i = 0; i < b.size(); ++i) { if (i) o += ','; dump_input(o, b[i], deep); } o += ']'; });
                    out += ",\"it\":";
                    guarded(out, [&](std::string &o) { auto b = in.as_list(); std::size_t k = 0; o += "{\"mi\":["; for (const auto &[n, c] : b.modified_items()) { if (k++) o += ','; o += std::to_string(n); } o += "],\"vi\":["; k = 0; for (const auto &[n, c] : b.valid_items()) { if (k++) o += ','; o += std::to_string(n); }
                        std::size_t mv = 0, vv = 0; for (auto c : b.modified_values()) { (void)c; ++mv; } for (auto c : b.valid_values()) { (void)c; ++vv; } o += "],\"mv\":" + std::to_string(mv) + ",\"vv\":" + std::to_string(vv) + "}"; });
                    break;
                }
                case TSTypeKind::TSW: {
                    out += ",\"acc\":";
                    guarded(out, [&](std::string &o) { auto w = in.as_window(); o += "{\"size\":" + std::to_string(w.size()) + ",\"values\":["; bool f = true; for (auto v : w.values()) { if (!f) o += ','; f = false; json_of(o, v); } o += "],\"rm\":"; if (w.has_removed_value()) json_of(o, w.removed_value()); else o += "null"; o += "}"; });
                    break;
                }
                default: break;
            }
        }
    }
    out += '}';
}

void dump_output(std::string &out, const TSOutputView &o_, bool deep) {
    out += '{';
    dump_common(out, o_);
    const auto *sc = o_.schema();
    if (deep && sc != nullptr) {
        switch (sc->kind) {
            case TSTypeKind::TSS: {
                out += ",\"acc\":";
                guarded(out, [&](std::string &o) { auto s = o_.as_set(); o += "{\"added\":"; jrange(o, s.added()); o += ",\"removed\":"; jrange(o, s.removed()); o += ",\"size\":" + std::to_string(s.size()); o += '}'; });
                break;
            }
            case TSTypeKind::TSD: {
                out += ",\"acc\":";
                guarded(out, [&](std::string &o) {
                    auto d = o_.as_dict();
                    o += "{\"added\":"; jrange(o, d.added_keys()); o += ",\"removed\":"; jrange(o, d.removed_keys());
                    o += ",\"modified\":"; jrange(o, d.modified_keys()); o += ",\"keys\":"; jrange(o, d.keys());
                    o += ",\"valid_keys\":"; jrange(o, d.valid_keys()); o += ",\"size\":" + std::to_string(d.size());
                    o += ",\"ch\":[";
                    std::vector<std::string> el;
                    for (const auto &[k, c] : d.items()) { std::string s = "["; json_of(s, k); s += ','; dump_output(s, c, deep); s += ']'; el.push_back(std::move(s)); }
                    std::sort(el.begin(), el.end());
                    for (std::size_t i = 0; i < el.size(); ++i) { if (i) o += ','; o += el[i]; }
                    o += "]}";
                });
                break;
            }
            case TSTypeKind::TSB: {
                out += ",\"ch\":";
                guarded(out, [&](std::string &o) { auto b = o_.as_bundle(); o += '['; for (std::size_t i = 0; i < b.size(); ++i) { if (i) o += ','; dump_output(o, b[i], deep); } o += ']'; });
                out += ",\"it\":";
                guarded(out, [&](std::string &o) { auto b = o_.as_bundle(); std::size_t k = 0; o += "{\"mi\":["; for (const auto &[n, c] : b.modified_items()) { if (k++) o += ','; jstr(o, std::string{n}); } o += "],\"vi\":["; k = 0; for (const auto &[n, c] : b.valid_items()) { if (k++) o += ','; jstr(o, std::string{n}); }
                    std::size_t mv = 0, vv = 0; for (auto c : b.modified_values()) { (void)c; ++mv; } for (auto c : b.valid_values()) { (void)c; ++vv; } o += "],\"mv\":" + std::to_string(mv) + ",\"vv\":" + std::to_string(vv) + ",\"names\":["; k = 0; for (auto n : b.keys()) { if (k++) o += ','; jstr(o, std::string{n}); } o += "]}"; });
                break;
            }
            case TSTypeKind::TSL: {
                out += ",\"ch\":";
                guarded(out, [&](std::string &o) { auto b = o_.as_list(); o += '['; for (std::size_t i = 0; i < b.size(); ++i) { if (i) o += ','; dump_output(o, b[i], deep); } o += ']'; });
                out += ",\"it\":";
                guarded(out, [&](std::string &o) { auto b = o_.as_list(); std::size_t k = 0; o += "{\"mi\":["; for (const auto &[n, c] : b.modified_items()) { if (k++) o += ','; o += std::to_string(n); } o += "],\"vi\":["; k = 0; for (const auto &[n, c] : b.valid_items()) { if (k++) o += ','; o += std::to_string(n); }
                    std::size_t mv = 0, vv = 0; for (auto c : b.modified_values()) { (void)c; ++mv; } for (auto c : b.valid_values()) { (void)c; ++vv; } o += "],\"mv\":" + std::to_string(mv) + ",\"vv\":" + std::to_string(vv) + "}"; });
                break;
            }
            case TSTypeKind::TSW: {
                out += ",\"acc\":";
                guarded(out, [&](std::string &o) { auto w = o_.as_window(); o += "{\"size\":" + std::to_string(w.size()) + ",\"values\":["; bool f = true; for (auto v : w.values()) { if (!f) o += ','; f = false; json_of(o, v); } o += "]}"; });
                break;
            }
            default: break;
        }
    }
    out += '}';
}

}  // namespace hv
