// Harness nodes: scripted writer source ("src") and the generic scripted compute/sink node ("node").
// Both are closure nodes (NodeBuilder::native).  Per-instance state lives in view.state() (never in the closure:
// children of map_/switch_ share one builder); it is never reset in start hooks.
#include "hv.h"

#include <sstream>
#include <thread>
#include <hgraph/runtime/push_source_node.h>
#include <hgraph/types/metadata/value_plan_factory.h>
#include <hgraph/types/value/value_builder.h>
#include <hgraph/lib/std/value_util.h>

namespace hv {

namespace {

struct DefSrc {};
struct DefNode {};

// ---- per-instance state "ord,sum,base" kept in a Str state value -------------------------------------------------
struct St { std::int64_t ord{0}, sum{0}, base{0}; };
St read_state(const NodeView &v) {
    St s;
    auto sv = v.state();
    if (!sv.has_value()) return s;
    const Str &t = sv.checked_as<Str>();
    if (t.empty()) return s;
    std::sscanf(t.c_str(), "%ld,%ld,%ld", &s.ord, &s.sum, &s.base);
    return s;
}
void write_state(const NodeView &v, const St &s) {
    v.replace_state(Value{Str{std::to_string(s.ord) + "," + std::to_string(s.sum) + "," + std::to_string(s.base)}});
}

bool is_realtime(const NodeView &v) {
    try { return v.graph().executor().schema()->mode == GraphExecutorMode::RealTime; } catch (...) { return false; }
}

NodeScheduler mk_sched(const NodeView &v, DateTime t, bool started, bool wall) {
    if (wall && is_realtime(v)) return NodeScheduler{v.scheduler_state(), v.graph_value(), v.node_index(), t, started, v.evaluation_clock(), true};
    return NodeScheduler{v.scheduler_state(), v.graph_value(), v.node_index(), t, started};
}

std::string ident(const NodeView &v) {
    std::string s;
    jstr(s, g_ctx ? g_ctx->gid_of(v.graph()) : std::string{"?"});
    s += ',' + std::to_string(v.node_index()) + ',';
    jstr(s, v.label());
    return s;
}

// ---- mutation-op interpreter -----------------------------------------------------------------------------------
void apply_op(const TSOutputView &o, DateTime t, const JV &op);

void apply_set_ops(const TSOutputView &o, DateTime t, const JV &ops) {
    const auto *el = o.schema()->value_type->element_type;
    auto so = o.as_set();
    auto m = so.begin_mutation(t);
    for (auto &e : ops.a) {
        const std::string &k = e.a.at(0).as_str();
        if (k == "add") (void)m.add(value_from_json(el, e.a.at(1)).view());
        else if (k == "rem") (void)m.remove(value_from_json(el, e.a.at(1)).view());
        else if (k == "clear") m.clear();
        else if (k == "touch") m.touch();
        else throw std::runtime_error("harness: bad set op " + k);
    }
}

void apply_dict_ops(const TSOutputView &o, DateTime t, const JV &ops) {
    const auto *kt = o.schema()->key_type();
    const auto *child = o.schema()->element_ts();
    auto d = o.as_dict();
    auto m = d.begin_mutation(t);
    for (auto &e : ops.a) {
        const std::string &k = e.a.at(0).as_str();
        if (k == "set") { m.set(value_from_json(kt, e.a.at(1)).view(), value_from_json(child->value_type, e.a.at(2)).view()); }
        else if (k == "erase") (void)m.erase(value_from_json(kt, e.a.at(1)).view());
        else if (k == "clear") m.clear();
        else if (k == "touch") m.touch();
        else if (k == "at") { Value key = value_from_json(kt, e.a.at(1)); auto c = m.at(key.view()); apply_op(TSOutputView{o.output(), c, t}, t, e.a.at(2)); }
        else throw std::runtime_error("harness: bad dict op " + k);
    }
}

// whole-value write of a partially populated bundle value: {"<field index>": <nested spec or scalar>}; absent fields stay unset
Value build_partial_value(const TSValueTypeMetaData *schema, const JV &v) {
    if (schema->kind == TSTypeKind::TS) return value_from_json(schema->value_type, v);
    if (schema->kind == TSTypeKind::TSS) {      // a whole set of ints (possibly empty)
        std::vector<Int> el;
        for (auto &e : v.a) el.emplace_back(Int{e.as_int()});
        return stdlib::make_set<Int>(el.begin(), el.end());
    }
    if (schema->kind != TSTypeKind::TSB || !v.is_obj()) throw std::runtime_error("harness: setv only populates TS / TSS / TSB positions");
    BundleBuilder bb{ValuePlanFactory::instance().type_for(schema->value_schema)};
    for (auto &kv : v.o) {
        const std::size_t index = (std::size_t)std::stoul(kv.first);
        Value c = build_partial_value(schema->fields()[index].type, kv.second);
        bb.set(index, c.view());
    }
    return bb.build();
}

void apply_op(const TSOutputView &o, DateTime t, const JV &op) {
    const std::string &k = op.at("k").as_str();
    if (k == "setv") {
        Value whole = build_partial_value(o.schema(), op.at("v"));
        if (op.bool_or("move", false)) (void)o.begin_mutation(t).move_value_from(std::move(whole));
        else (void)o.begin_mutation(t).copy_value_from(whole.view());
    }
    else if (k == "sets") {
        // whole-set write (TSS[int]): the new contents replace the old ones; copy or move flavour
        Value whole = build_partial_value(o.schema(), op.at("v"));
        if (op.bool_or("move", false)) (void)o.begin_mutation(t).move_value_from(std::move(whole));
        else (void)o.begin_mutation(t).copy_value_from(whole.view());
    }
    else if (k == "setd") {
        // whole-dictionary write (TSD[int, TS[int]]): the new contents replace the old ones; copy or move flavour
        std::vector<std::pair<Int, Int>> kv;
        for (auto &e : op.at("v").a) kv.emplace_back(Int{e.a.at(0).as_int()}, Int{e.a.at(1).as_int()});
        Value whole = stdlib::make_map<Int, Int>(kv.begin(), kv.end());
        auto d = o.as_dict();
        auto m = d.begin_mutation(t);
        if (op.bool_or("move", false)) (void)m.move_value_from(std::move(whole));
        else (void)m.copy_value_from(whole.view());
    }
    else if (k == "set") { (void)o.begin_mutation(t).copy_value_from(value_from_json(o.schema()->value_type, op.at("v")).view()); }
    else if (k == "inval") { (void)o.begin_mutation(t).invalidate(); }
    else if (k == "S") apply_set_ops(o, t, op.at("ops"));
    else if (k == "D") apply_dict_ops(o, t, op.at("ops"));
    else if (k == "i") {
        const std::size_t i = (std::size_t)op.at("i").as_int();
        if (o.schema()->kind == TSTypeKind::TSB) { auto b = o.as_bundle(); apply_op(b.at(i), t, op.at("op")); }
        else { auto l = o.as_list(); apply_op(l.at(i), t, op.at("op")); }
    }
    else if (k == "wclear") {
        // window: remove every retained tick; an optional push follows through the same mutation scope
        auto w = o.as_window();
        auto m = w.begin_mutation(t);
        m.clear();
        if (op.has("v")) m.push(value_from_json(o.schema()->value_type, op.at("v")).view());
    }
    else if (k == "push") { auto w = o.as_window(); w.begin_mutation(t).push(value_from_json(o.schema()->value_type, op.at("v")).view()); }
    else if (k == "delta") { Value d = value_from_json(o.schema()->delta_value_schema, op.at("v")); apply_delta(o, d.view()); }
    else if (k == "tick") { o.begin_mutation(t).mark_modified(); }
    else throw std::runtime_error("harness: bad op " + k);
}

const char *intern_cstr(const std::string &s) {
    static std::mutex mu; static std::set<std::string> pool;
    std::lock_guard<std::mutex> l(mu);
    return pool.insert(s).first->c_str();
}

// ---- scheduler script -----------------------------------------------------------------------------------------
void sched_query(std::string &out, const NodeScheduler &s, const std::vector<std::string> &tags) {
    out += '[' + jtime(s.next_scheduled_time()) + ',' + (s.is_scheduled() ? "true" : "false") + ',' + (s.is_scheduled_now() ? "true" : "false") + ",{";
    bool first = true;
    for (auto &tg : tags) {
        if (!first) out += ',';
        first = false;
        jstr(out, tg);
        out += ":[";
        out += s.has_tag(tg) ? "true" : "false";
        out += ',' + jtime(s.tag_time(tg)) + ',' + (s.tag_is_scheduled_now(tg) ? "true" : "false") + ']';
    }
    out += "}]";
}

void run_sched_ops(std::string &log, const NodeView &v, DateTime t, bool started, const JV &ops, const std::vector<std::string> &tags) {
    for (auto &op : ops.a) {
        const std::string &k = op.a.at(0).as_str();
        if (!log.empty()) log += ',';
        log += "[";
        jstr(log, k);
        if (k == "s") {
            const std::string &mode = op.a.at(1).as_str();
            const std::int64_t n = op.a.at(2).as_int();
            std::optional<std::string> tag;
            if (op.a.size() > 3 && op.a[3].is_str()) tag = op.a[3].s;
            const bool wall = mode == "wall" || mode == "wallrel";
            NodeScheduler s = mk_sched(v, t, started, wall);
            log += ","; jstr(log, mode); log += "," + std::to_string(n) + ","; if (tag) jstr(log, *tag); else log += "null";
            if (mode == "rel") s.schedule(TimeDelta{n}, tag);
            else if (mode == "abs") s.schedule(abs_t(n), tag);
            else if (mode == "wallrel") s.schedule(TimeDelta{n}, tag, true);
            else if (mode == "wall") { DateTime wn = v.evaluation_clock().now(); log += "," + jtime(wn); s.schedule(wn + TimeDelta{n}, tag, true); }
            else throw std::runtime_error("harness: bad sched mode");
            log += ','; sched_query(log, s, tags);
        } else {
            NodeScheduler s = mk_sched(v, t, started, false);
            if (k == "u") { if (op.a.size() > 1 && op.a[1].is_str()) { log += ","; jstr(log, op.a[1].s); s.un_schedule(op.a[1].s); } else { log += ",null"; s.un_schedule(); } }
            else if (k == "pop") { log += ","; jstr(log, op.a.at(1).as_str()); DateTime r = s.pop_tag(op.a.at(1).as_str()); log += ',' + jtime(r); }
            else if (k == "reset") s.reset();
            else if (k == "q") {}
            else throw std::runtime_error("harness: bad sched op " + k);
            log += ','; sched_query(log, s, tags);
        }
        log += ']';
    }
}

std::uint64_t fnv(std::string_view s) { std::uint64_t h = 1469598103934665603ull; for (unsigned char c : s) { h ^= c; h *= 1099511628211ull; } return h; }

std::int64_t contribution(const TSInputView &c) {
    const auto *sc = c.schema();
    if (sc == types().ts_int) return c.value().checked_as<Int>();
    if (sc == types().ts_bool) return c.value().checked_as<Bool>() ? 1 : 0;
    if (sc->kind == TSTypeKind::REF) return 0;
    return (std::int64_t)(fnv(json_of(c.value())) % 1000003ull);
}

struct NodeCfg {
    std::string label;
    std::size_t n_in{0};
    bool has_out{false};
    const TSValueTypeMetaData *out_schema{nullptr};
    std::string mode{"sum"};
    std::string emit{"always"};
    std::vector<std::int64_t> coef;
    std::int64_t bias{0};
    bool deep{false};
    bool log_inputs{true};
    JV sched;   // object or null
    JV thr;     // object or null
    std::vector<std::string> tags;
    std::int64_t stop_at_ord{-1};
    JV toggle;                 // {"<ordinal>": [[input index, "p"|"a"], ...]}: run-time make_passive() / make_active()
    std::int64_t sleep_us{0};
    std::int64_t mirror_in{-1};
    bool collect{false};          // real-time collecting sink: counts delivered values, stamps the global sequence
    bool has_latch{false};
    std::int64_t latch_val{0};
    bool has_loop{false};            // real-time sink: on seeing `loop_on`, try_send `loop_v` into push source `loop_src` FROM THE EVALUATION THREAD
    std::int64_t loop_on{0}, loop_v{0};
    std::string loop_src;
};

bool in_list(const JV *lst, std::int64_t x) { if (!lst || !lst->is_arr()) return false; for (auto &e : lst->a) if (e.as_int() == x) return true; return false; }

}  // namespace

// =================================================================================================================
WiringPortRef wire_src(Scope &sc, const JV &st) {
    const std::string id = st.at("id").as_str();
    const auto *schema = parse_ts(st.at("schema").as_str());
    auto script = std::make_shared<std::map<std::int64_t, JV>>();
    if (auto *s = st.get("script")) for (auto &e : s->a) (*script)[e.a.at(0).as_int()] = e.a.at(1);
    const bool relative = st.bool_or("rel", false);
    const std::string label = sc.prefix + id;

    NodeTypeMetaData m;
    m.display_name = "hv_src";
    m.output_schema = schema;
    m.state_schema = types().s;
    m.node_kind = NodeKind::PullSource;
    m.uses_scheduler = true;
    NodeCallbacks cb;
    cb.start = [script, relative](const NodeView &v, DateTime t) {
        if (g_ctx) g_ctx->add("[\"us\"," + ident(v) + "," + jtime(t) + "]");
        St s = read_state(v);
        s.base = relative ? rel(t) : 0;
        write_state(v, s);
        auto it = script->lower_bound(rel(t) - s.base);
        if (it != script->end()) { NodeScheduler sch = mk_sched(v, t, false, false); sch.schedule(abs_t(it->first + s.base)); }
    };
    cb.evaluate = [script](const NodeView &v, DateTime t) {
        St s = read_state(v);
        const std::int64_t now = rel(t) - s.base;
        if (g_ctx) g_ctx->add("[\"ev\"," + ident(v) + "," + jtime(t) + "," + std::to_string(s.ord) + "]");
        s.ord++;
        write_state(v, s);
        auto it = script->find(now);
        if (it != script->end()) { auto out = v.output(t); for (auto &op : it->second.a) apply_op(out, t, op); }
        auto nx = script->upper_bound(now);
        if (nx != script->end()) { NodeScheduler sch = mk_sched(v, t, true, false); sch.schedule(abs_t(nx->first + s.base)); }
    };
    cb.stop = [](const NodeView &v, DateTime t) { if (g_ctx) g_ctx->add("[\"up\"," + ident(v) + "," + jtime(t) + "]"); };
    const bool uniq = st.bool_or("uniq", true);
    std::string cfg = st.at("schema").as_str() + "|" + std::to_string(relative);
    if (auto *s = st.get("script")) { for (auto &e : s->a) { cfg += "|" + std::to_string(e.a.at(0).as_int()) + ":" + std::to_string(e.a.at(1).a.size()); } }
    cfg += "|" + st.str_or("cfg", "");
    if (uniq) cfg += "#" + std::to_string(next_uid());
    return sc.w->add_node(std::type_index(typeid(DefSrc)), NodeBuilder::native(m, cb).label(label), std::span<const WiringPortRef>{}, Value{Str{cfg}});
}

// =================================================================================================================
WiringPortRef wire_push_src(Scope &sc, const JV &st) {
    struct DefPush {};
    const std::string id = st.at("id").as_str();
    const auto *schema = parse_ts(st.at("schema").as_str());
    const std::string policy = st.str_or("policy", "queue");
    const std::size_t cap = (std::size_t)st.int_or("capacity", 0);
    PushSourcePolicy pol = policy == "burst" ? make_push_source_burst_policy(*schema, cap)
                           : policy == "conflating" ? make_push_source_conflating_policy(*schema)
                                                    : make_push_source_queue_policy(*schema, cap);
    const std::int64_t start_timer_us = st.int_or("start_timer_us", 0);
    NodeBuilder nb = start_timer_us > 0
        ? [&] {
              // a push source that also uses the scheduler: its start hook books one timer (the view-taking start callback)
              PushSourceNodeExtension ext;
              ext.uses_scheduler = true;
              ext.on_start = [id, start_timer_us](PushSourceSender s, const NodeView &v, DateTime t) {
                  NodeScheduler sch{v.scheduler_state(), v.graph_value(), v.node_index(), t, false};
                  sch.schedule(t + TimeDelta{start_timer_us});
                  if (g_ctx) {
                      g_ctx->add("[\"pst\"," + ident(v) + "," + jtime(t) + "," + jtime(t + TimeDelta{start_timer_us}) + "]");
                      g_ctx->senders[id] = std::make_shared<PushSourceSender>(std::move(s)); g_ctx->senders_ready.fetch_add(1);
                  }
              };
              return make_push_source_node_with_view(*schema, pol, std::move(ext));
          }()
        : make_push_source_node(*schema, pol, [id](PushSourceSender s) {
              if (g_ctx) { g_ctx->senders[id] = std::make_shared<PushSourceSender>(std::move(s)); g_ctx->senders_ready.fetch_add(1); }
          });
    nb.label(sc.prefix + id);
    return sc.w->add_unique_node(std::type_index(typeid(DefPush)), std::move(nb), std::span<const WiringPortRef>{}, Value{});
}

// =================================================================================================================
WiringPortRef wire_node(Scope &sc, const JV &st, std::vector<WiringPortRef> ins) {
    auto cfg = std::make_shared<NodeCfg>();
    const std::string id = st.at("id").as_str();
    cfg->label = sc.prefix + id;
    cfg->n_in = ins.size();
    if (st.has("out")) { cfg->has_out = true; cfg->out_schema = parse_ts(st.at("out").as_str()); }
    cfg->mode = st.str_or("fn", "sum");
    cfg->emit = st.str_or("emit", "always");
    if (auto *c = st.get("coef")) for (auto &e : c->a) cfg->coef.push_back(e.as_int());
    cfg->bias = st.int_or("bias", 0);
    cfg->deep = st.bool_or("deep", false);
    cfg->log_inputs = st.bool_or("log_inputs", true);
    if (auto *s = st.get("sched")) cfg->sched = *s;
    if (auto *s = st.get("throw")) cfg->thr = *s;
    if (auto *s = st.get("tags")) for (auto &e : s->a) cfg->tags.push_back(e.as_str());
    cfg->stop_at_ord = st.int_or("stop_at_ord", -1);
    if (auto *tg = st.get("toggle")) cfg->toggle = *tg;
    cfg->sleep_us = st.int_or("sleep_us", 0);
    cfg->mirror_in = st.int_or("mirror", -1);
    cfg->collect = st.bool_or("collect", false);
    if (st.has("latch_on")) { cfg->has_latch = true; cfg->latch_val = st.at("latch_on").as_int(); }
    if (auto *l = st.get("loop_send")) { cfg->has_loop = true; cfg->loop_on = l->at("on").as_int(); cfg->loop_v = l->at("v").as_int(); cfg->loop_src = l->str_or("src", "ps"); }

    auto &reg = TypeRegistry::instance();
    NodeTypeMetaData m;
    m.display_name = "hv_node";
    if (!ins.empty()) {
        std::vector<std::pair<std::string, const TSValueTypeMetaData *>> f;
        const bool as_ref = st.bool_or("as_ref", false);
        for (std::size_t i = 0; i < ins.size(); ++i) {
            // a consumer of a reference-shaped port reads THROUGH the reference unless it asks for the REF itself
            const TSValueTypeMetaData *fs = ins[i].schema;
            if (fs != nullptr && fs->kind == TSTypeKind::REF && !as_ref) fs = fs->referenced_ts();
            // a SIGNAL-typed input: the node only wants to know THAT its source ticked
            if (st.bool_or("as_signal", false)) fs = reg.signal();
            f.emplace_back("i" + std::to_string(i), fs);
        }
        m.input_schema = reg.un_named_tsb(f);
    }
    if (cfg->has_out) m.output_schema = cfg->out_schema;
    m.state_schema = types().s;
    m.node_kind = ins.empty() ? NodeKind::PullSource : (cfg->has_out ? NodeKind::Compute : NodeKind::Sink);
    const bool uses_sched = cfg->sched.is_obj();
    m.uses_scheduler = uses_sched;
    m.uses_evaluation_clock = st.bool_or("clock", false);
    m.schedule_on_start = st.bool_or("schedule_on_start", false);
    auto sel = [&](const char *key) -> std::optional<std::vector<std::size_t>> {
        auto *p = st.get(key);
        if (!p || p->is_null()) return std::nullopt;
        std::vector<std::size_t> r; for (auto &e : p->a) r.push_back((std::size_t)e.as_int()); return r;
    };
    m.active_inputs = sel("active");
    m.valid_inputs = sel("valid");
    if (auto av = sel("all_valid")) m.all_valid_inputs = *av;

    NodeCallbacks cb;
    cb.start = [cfg](const NodeView &v, DateTime t) {
        std::string e = "[\"us\"," + ident(v) + "," + jtime(t);
        if (cfg->sched.is_obj()) {
            if (auto *ops = cfg->sched.get("start")) { std::string lg; run_sched_ops(lg, v, t, false, *ops, cfg->tags); e += ",[" + lg + "]"; }
        }
        e += "]";
        if (g_ctx) g_ctx->add(std::move(e));
        if (cfg->thr.is_obj() && cfg->thr.bool_or("start", false)) throw std::runtime_error("boom:" + cfg->label + ":start");
        // a start fault of ONE instance among several of the same definition: only where the first input already holds a negative value
        if (cfg->thr.is_obj() && cfg->thr.bool_or("start_neg", false) && cfg->n_in > 0) {
            bool neg = false;
            try { auto in = v.input(t); auto b = in.as_bundle(); auto c = b[0]; neg = c.valid() && contribution(c) < 0; } catch (...) {}
            if (neg) throw std::runtime_error("boom:" + cfg->label + ":start");
        }
    };
    cb.stop = [cfg](const NodeView &v, DateTime t) {
        if (g_ctx) g_ctx->add("[\"up\"," + ident(v) + "," + jtime(t) + "]");
        if (cfg->thr.is_obj() && cfg->thr.bool_or("stop", false)) throw std::runtime_error("boom:" + cfg->label + ":stop");
    };
    cb.evaluate = [cfg](const NodeView &v, DateTime t) {
        St s = read_state(v);
        const std::int64_t ord = s.ord;
        s.ord++;
        std::string e = "[\"ev\"," + ident(v) + "," + jtime(t) + "," + std::to_string(ord) + ",[";
        std::int64_t x = (cfg->mode == "max" || cfg->mode == "xor") ? 0 : cfg->bias;
        std::size_t n_valid = 0;
        std::int64_t first_val = 0;
        bool any_mod = false;
        if (cfg->n_in > 0) {
            auto in = v.input(t);
            auto b = in.as_bundle();
            for (std::size_t i = 0; i < cfg->n_in; ++i) {
                auto c = b[i];
                if (i) e += ',';
                if (cfg->log_inputs) dump_input(e, c, cfg->deep); else e += "null";
                bool valid = false;
                try { valid = c.valid(); any_mod = any_mod || c.modified(); } catch (...) {}
                if (valid) {
                    const std::int64_t k = i < cfg->coef.size() ? cfg->coef[i] : 1;
                    const std::int64_t v = k * contribution(c);
                    if (i == 0) first_val = v;
                    if (cfg->mode == "max") { x = (n_valid == 0) ? v : std::max(x, v); }
                    else if (cfg->mode == "xor") { x = (n_valid == 0) ? v : (x ^ v); }
                    else x += v;
                    ++n_valid;
                }
            }
        }
        e += "],{";
        bool first_extra = true;
        auto extra = [&](const std::string &k) { if (!first_extra) e += ','; first_extra = false; jstr(e, k); e += ':'; };
        bool sched_now = false;
        if (cfg->sched.is_obj()) {
            NodeScheduler q = mk_sched(v, t, true, false);
            sched_now = q.is_scheduled_now();
            extra("q0"); sched_query(e, q, cfg->tags);
            std::string lg;
            if (auto *m = cfg->sched.get("ord")) if (auto *ops = m->get(std::to_string(ord))) run_sched_ops(lg, v, t, true, *ops, cfg->tags);
            if (auto *m = cfg->sched.get("time")) if (auto *ops = m->get(std::to_string(rel(t)))) run_sched_ops(lg, v, t, true, *ops, cfg->tags);
            if (any_mod) if (auto *ops = cfg->sched.get("tick")) run_sched_ops(lg, v, t, true, *ops, cfg->tags);
            if (auto *ops = cfg->sched.get("every")) run_sched_ops(lg, v, t, true, *ops, cfg->tags);
            extra("sq"); e += '[' + lg + ']';
        }
        if (v.schema()->uses_evaluation_clock) { extra("now"); e += jtime(v.evaluation_clock().now()); }
        if (cfg->collect && g_ctx) {
            std::int64_t n = 1;
            if (cfg->n_in > 0) { auto in = v.input(t); auto b = in.as_bundle(); auto c = b[0]; if (c.valid() && c.value().is_list()) n = (std::int64_t)c.value().as_list().size(); }
            extra("seq"); e += std::to_string(g_ctx->seq.fetch_add(1) + 1);
            g_ctx->delivered.fetch_add(n);
            g_ctx->last_value.store(first_val);
            if (cfg->has_loop && first_val == cfg->loop_on) {
                bool ok = false;
                const std::int64_t lsb = g_ctx->seq.fetch_add(1) + 1;
                auto it = g_ctx->senders.find(cfg->loop_src);
                if (it != g_ctx->senders.end()) { try { ok = static_cast<PushSourceSender *>(it->second.get())->try_send(Value{Int{cfg->loop_v}}); } catch (...) {} }
                if (ok) g_ctx->loop_accepted.fetch_add(1);
                const std::int64_t lsa = g_ctx->seq.fetch_add(1) + 1;
                extra("loop"); e += std::string{"["} + (ok ? "true" : "false") + "," + std::to_string(lsb) + "," + std::to_string(lsa) + "]";
            }
        }
        bool thrown = false;
        if (cfg->thr.is_obj()) {
            if (in_list(cfg->thr.get("ord"), ord) || in_list(cfg->thr.get("time"), rel(t))) thrown = true;
            if (cfg->thr.bool_or("neg", false) && first_val < 0) thrown = true;
        }
        if (cfg->mode == "acc") { s.sum += x; x = s.sum; }
        else if (cfg->mode == "count") { x = ord + 1; }
        write_state(v, s);
        if (thrown) {
            extra("throw"); e += "true"; e += "}]";
            if (g_ctx) g_ctx->add(std::move(e));
            // optionally a message that runs over several lines (a validation report): it must arrive whole
            throw std::runtime_error("boom:" + cfg->label + ":eval:" + std::to_string(ord) + (cfg->thr.bool_or("multiline", false) ? "\n  second line of " + cfg->label + "\r\n  third line" : std::string{}));
        }
        if (cfg->toggle.is_obj() && cfg->n_in > 0) {
            auto in = v.input(t); auto b = in.as_bundle();
            if (auto *ops = cfg->toggle.get(std::to_string(ord))) for (auto &op : ops->a) {
                auto c = b[(std::size_t)op.a[0].as_int()];
                if (op.a[1].as_str() == "p") c.make_passive(); else c.make_active();
            }
            extra("act"); e += '[';
            for (std::size_t i = 0; i < cfg->n_in; ++i) { if (i) e += ','; e += b[i].active() ? "true" : "false"; }
            e += ']';
        }
        bool emit = cfg->has_out && (cfg->emit == "always" || (cfg->emit == "sched_now" && sched_now) || (cfg->emit == "tick" && any_mod));
        if (emit) {
            auto out = v.output(t);
            if (cfg->mirror_in >= 0) {
                auto in = v.input(t); auto b = in.as_bundle(); auto c = b[(std::size_t)cfg->mirror_in];
                if (c.modified()) { Value d = capture_delta(c); apply_delta(out, d.view()); extra("out"); json_of(e, d.view()); }
            } else if (cfg->out_schema == types().ts_int) {
                (void)out.begin_mutation(t).copy_value_from(Value{Int{x}}.view()); extra("out"); e += std::to_string(x);
            } else if (cfg->out_schema == types().ts_bool) {
                (void)out.begin_mutation(t).copy_value_from(Value{Bool{(x & 1) != 0}}.view()); extra("out"); e += (x & 1) ? "true" : "false";
            } else if (cfg->mode == "dsum" && cfg->out_schema->kind == TSTypeKind::TSD) {
                // key-wise sum of the valid entries of all (dictionary) inputs, written as the node's whole result: a
                // collection-valued associative-commutative combiner for keyed reductions
                std::map<std::int64_t, std::int64_t> sums;
                auto in = v.input(t); auto b = in.as_bundle();
                for (std::size_t i = 0; i < cfg->n_in; ++i) {
                    auto c = b[i];
                    if (!c.valid()) continue;
                    auto cd = c.as_dict();
                    for (const auto &[k, ch] : cd.items()) if (ch.valid()) sums[k.template checked_as<Int>()] += ch.value().template checked_as<Int>();
                }
                auto d = out.as_dict();
                std::vector<std::int64_t> stale;
                for (auto k : d.keys()) { const std::int64_t kk = k.template checked_as<Int>(); if (!sums.count(kk)) stale.push_back(kk); }
                auto m = d.begin_mutation(t);
                for (auto kk : stale) (void)m.erase(Value{Int{kk}}.view());
                for (auto &kv : sums) m.set(Value{Int{kv.first}}.view(), Value{Int{kv.second}}.view());
                if (sums.empty() && stale.empty()) m.touch();
                extra("out"); e += std::to_string(sums.size());
            } else throw std::runtime_error("harness: node out schema unsupported without mirror");
        }
        e += "}]";
        if (g_ctx) g_ctx->add(std::move(e));
        if (cfg->has_latch && g_ctx && first_val == cfg->latch_val && !g_ctx->release_latch.load()) {
            g_ctx->latched.store(true);
            while (!g_ctx->release_latch.load()) { std::this_thread::yield(); }
        }
        if (cfg->sleep_us > 0) { auto until = std::chrono::steady_clock::now() + std::chrono::microseconds(cfg->sleep_us); while (std::chrono::steady_clock::now() < until) {} }
        if (cfg->stop_at_ord >= 0 && ord == cfg->stop_at_ord) v.graph().executor().request_stop();
    };

    // interning key: the statement's configuration (everything but the id) — equal configuration + equal inputs may
    // share one instance, which is exactly the engine rule C06 talks about.
    std::string key;
    for (auto &kv : st.o) { if (kv.first == "id" || kv.first == "ins" || kv.first == "uniq") continue; key += kv.first + "=";
        std::function<void(const JV &)> ser = [&](const JV &j) { switch (j.k) { case JV::Null: key += "n"; break; case JV::Bool: key += j.b ? "t" : "f"; break; case JV::Int: key += std::to_string(j.i); break; case JV::Dbl: key += std::to_string(j.d); break; case JV::Str: key += jq(j.s); break;
            case JV::Arr: key += "["; for (auto &x : j.a) { ser(x); key += ","; } key += "]"; break; case JV::Obj: key += "{"; for (auto &x : j.o) { key += x.first + ":"; ser(x.second); key += ","; } key += "}"; break; } };
        ser(kv.second); key += ";"; }
    if (st.bool_or("uniq", true)) key += "#" + std::to_string(next_uid());
    NodeBuilder nb = NodeBuilder::native(m, cb);
    nb.label(cfg->label);
    // exactly what wire<T> does for a static node: the input endpoint follows the shape of the sources
    if (!ins.empty()) nb.input_endpoint(graph_wiring_detail::input_endpoint_for_sources(m.input_schema, std::span<const WiringPortRef>{ins.data(), ins.size()}));
    if (st.bool_or("via_unique", false))   // the never-interned entry point of the wiring API
        return sc.w->add_unique_node(std::type_index(typeid(DefNode)), std::move(nb), std::span<const WiringPortRef>{ins.data(), ins.size()}, Value{Str{key}});
    return sc.w->add_node(std::type_index(typeid(DefNode)), std::move(nb), std::span<const WiringPortRef>{ins.data(), ins.size()}, Value{Str{key}});
}

}  // namespace hv
