// Program interpreter: turns the generated IR into Wiring calls.
#include "hv.h"
#include <hgraph/lib/std/operators/impl/higher_order_impl.h>

#include <hgraph/types/record_replay.h>
#include <hgraph/types/subgraph_wiring.h>

namespace hv {

namespace {

struct DefNested {};
struct DefFbSrc {};
struct DefFbSink {};

thread_local Scope *g_parent_scope = nullptr;  // scope enclosing the sub-program currently being wired

WiringPortRef project(WiringPortRef port, const JV &path) {
    for (auto &e : path.a) {
        const std::size_t idx = (std::size_t)e.as_int();
        const auto *cs = child_schema(port.schema, idx);
        switch (port.source_kind()) {
            case WiringPortRef::SourceKind::Peered: { auto p = port.peered_path(); p.push_back(idx); port = WiringPortRef::peered_source(port.peered_node(), std::move(p), cs, port.peered_output_kind()); break; }
            case WiringPortRef::SourceKind::Boundary: { auto p = port.boundary_path(); p.push_back(idx); port = port.projected_boundary_source(std::move(p), cs); break; }
            case WiringPortRef::SourceKind::Delayed: { auto p = port.delayed_path(); p.push_back(idx); port = port.projected_delayed_source(std::move(p), cs); break; }
            case WiringPortRef::SourceKind::Structural: port = port.structural_children().at(idx); break;
            default: throw std::runtime_error("harness: cannot project this port kind");
        }
    }
    return port;
}

WiringArg ts_arg(WiringPortRef port, std::string name = {}) { WiringArg a; a.kind = WiringArg::Kind::TimeSeries; a.port = std::move(port); a.name = std::move(name); return a; }
WiringArg sc_arg(Value v, std::string name = {}) { WiringArg a; a.kind = WiringArg::Kind::Scalar; a.scalar_value = std::move(v); a.scalar_meta = a.scalar_value.schema(); a.name = std::move(name); return a; }

// ---- run-time function values --------------------------------------------------------------------------------
WiringPortRef sub_body(const SubRecord &r, Wiring &w, std::span<const WiringPortRef> args, Scope *parent, bool inlined) {
    Scope sc;
    sc.prog = r.prog;
    sc.w = &w;
    sc.args = args;
    sc.prefix = (parent ? parent->prefix : std::string{}) + r.name + ".";
    Scope *saved = g_parent_scope;
    struct Restore { Scope *s; ~Restore() { g_parent_scope = s; } } restore{saved};
    // `outer` refs resolve in the scope that *called* us: when inlined that is the live parent scope; when compiled
    // as a child graph the port is captured across the boundary.
    sc.ports.clear();
    struct Ctx { Scope *parent; bool inlined; };
    static thread_local std::vector<Ctx> stack;
    stack.push_back({parent, inlined});
    struct Pop { ~Pop() { stack.pop_back(); } } pop;
    g_parent_scope = parent;
    // stash inline flag in the scope via a reserved port name
    if (inlined) sc.ports.emplace("$inlined", WiringPortRef{});
    wire_stmts(sc, r.def->at("stmts"));
    if (r.def->has("ret")) return resolve_ref(sc, r.def->at("ret"));
    return WiringPortRef{};
}

WiringPortRef fr_wire(const void *ctx, Wiring &w, std::span<const WiringPortRef> args) {
    const auto *r = static_cast<const SubRecord *>(ctx);
    return sub_body(*r, w, args, g_parent_scope, true);
}

CompiledSubGraph fr_compile(const void *ctx, Wiring *parent, std::span<const TSValueTypeMetaData *const> schemas) {
    const auto *r = static_cast<const SubRecord *>(ctx);
    Wiring child = parent != nullptr ? parent->child_wiring() : Wiring{WiringKind::SubGraph};
    std::vector<const TSValueTypeMetaData *> s{schemas.begin(), schemas.end()};
    std::vector<WiringPortRef> boundary;
    for (std::size_t i = 0; i < s.size(); ++i) boundary.push_back(WiringPortRef::boundary_source(i, {}, s[i]));
    WiringPortRef out = sub_body(*r, child, {boundary.data(), boundary.size()}, g_parent_scope, false);
    if (out.schema != nullptr) return std::move(child).finish_subgraph(out, std::move(s));
    return std::move(child).finish_subgraph(std::nullopt, std::move(s));
}

const WiredFnOps &fr_ops() {
    static constexpr WiredFnOps ops{
        &fr_wire, &fr_compile,
        [](const void *c) { auto *r = static_cast<const SubRecord *>(c); return std::span<const std::string_view>{r->names.data(), r->names.size()}; },
        [](const void *c, std::size_t i) -> const TSValueTypeMetaData * { auto *r = static_cast<const SubRecord *>(c); return i < r->in_schemas.size() ? r->in_schemas[i] : nullptr; },
        [](const void *c, std::size_t i) -> std::optional<TypePattern> { auto *r = static_cast<const SubRecord *>(c); return i < r->in_schemas.size() ? std::optional<TypePattern>{TypePattern::concrete(r->in_schemas[i])} : std::nullopt; },
        [](const void *c) -> const TSValueTypeMetaData * { return static_cast<const SubRecord *>(c)->out_schema; },
        [](const void *c) -> std::string_view { return static_cast<const SubRecord *>(c)->name; }};
    return ops;
}

WiringPortRef erased_nested(Wiring &w, const WiredFn &fn, std::vector<WiringPortRef> inputs, const std::string &label,
                            std::optional<std::vector<std::size_t>> active = std::nullopt) {
    std::vector<WiringPortRef> shapes;
    for (std::size_t i = 0; i < inputs.size(); ++i) shapes.push_back(subgraph_wiring_detail::boundary_shape(inputs[i], i, {}));
    CompiledSubGraph compiled = fn.compile(w, std::span<const WiringPortRef>{shapes.data(), shapes.size()});
    for (auto &c : compiled.captured_inputs) inputs.push_back(c);
    std::vector<std::pair<std::string, const TSValueTypeMetaData *>> fields;
    for (std::size_t i = 0; i < compiled.input_schemas.size(); ++i) fields.emplace_back(std::to_string(i), compiled.input_schemas[i]);
    const TSValueTypeMetaData *input_schema = fields.empty() ? nullptr : TypeRegistry::instance().un_named_tsb(fields);
    WiringNodeSchema ns;
    ns.input = input_schema;
    ns.output = compiled.output_schema;
    Value scalars{Int{(Int)next_uid()}};
    const char *name = "hv_nested";
    return w.add_node(std::type_index(typeid(DefNested)), ns, std::span<const WiringPortRef>{inputs.data(), inputs.size()}, std::move(scalars), [&]() {
        NodeTypeMetaData meta;
        meta.display_name = name;
        meta.input_schema = input_schema;
        meta.output_schema = compiled.output_schema;
        if (active.has_value()) meta.active_inputs = *active;   // the nested NODE itself listens only to these slots
        SingleNestedGraphNodeSpec spec;
        spec.graph_builder = std::move(compiled.graph_builder);
        spec.input_bindings = std::move(compiled.input_bindings);
        spec.output_binding = compiled.output_binding;
        NodeBuilder b = single_nested_graph_node(std::move(meta), std::move(spec));
        b.label(label);
        if (input_schema != nullptr) b.input_endpoint(graph_wiring_detail::input_endpoint_for_sources(input_schema, std::span<const WiringPortRef>{inputs.data(), inputs.size()}));
        return b;
    });
}

}  // namespace

WiredFn make_wired_fn(Program &p, const std::string &sub_name) {
    auto it = p.subs.find(sub_name);
    if (it == p.subs.end()) {
        const JV *subs = p.root.get("subs");
        const JV *def = subs ? subs->get(sub_name) : nullptr;
        if (!def) throw std::runtime_error("harness: unknown sub-program " + sub_name);
        auto r = std::make_unique<SubRecord>();
        r->prog = &p;
        r->name = sub_name;
        r->def = def;
        std::size_t i = 0;
        for (auto &ps : def->at("params").a) {
            r->in_schemas.push_back(parse_ts(ps.as_str()));
            r->names_s.push_back("p" + std::to_string(i++));
        }
        if (auto *nm = def->get("names")) { r->names_s.clear(); for (auto &n : nm->a) r->names_s.push_back(n.as_str()); }
        for (auto &n : r->names_s) r->names.emplace_back(n);
        if (def->has("out")) r->out_schema = parse_ts(def->at("out").as_str());
        it = p.subs.emplace(sub_name, std::move(r)).first;
    }
    SubRecord *r = it->second.get();
    return WiredFn{.ops = &fr_ops(), .context = r, .identity = &typeid(SubRecord), .arity = r->in_schemas.size(), .has_output = r->out_schema != nullptr};
}

WiringPortRef resolve_ref(Scope &sc, const JV &ref) {
    if (ref.is_str()) {
        auto it = sc.ports.find(ref.s);
        if (it == sc.ports.end()) throw std::runtime_error("harness: unknown port " + ref.s);
        return it->second;
    }
    WiringPortRef port;
    if (auto *a = ref.get("arg")) {
        const std::size_t i = (std::size_t)a->as_int();
        if (i >= sc.args.size()) throw std::runtime_error("harness: arg index out of range");
        port = sc.args[i];
    } else if (auto *o = ref.get("outer")) {
        if (g_parent_scope == nullptr) throw std::runtime_error("harness: outer ref without parent scope");
        Scope *parent = g_parent_scope;
        Scope *saved = g_parent_scope;
        WiringPortRef outer = resolve_ref(*parent, *o);
        g_parent_scope = saved;
        port = sc.ports.count("$inlined") ? outer : sc.w->capture_outer_source(outer);
    } else if (auto *r = ref.get("r")) {
        auto it = sc.ports.find(r->as_str());
        if (it == sc.ports.end()) throw std::runtime_error("harness: unknown port " + r->as_str());
        port = it->second;
    } else throw std::runtime_error("harness: bad port ref");
    if (auto *p = ref.get("path")) port = project(port, *p);
    if (ref.bool_or("keyset", false)) port = subgraph_wiring_detail::tsd_key_set_ref(port);   // the TSS[K] key-set endpoint of a dictionary
    if (ref.bool_or("passive", false)) port = port.with_arg_tag(WiringPortRef::ArgTag::Passive);
    return port;
}

void wire_stmts(Scope &sc, const JV &stmts) {
    Wiring &w = *sc.w;
    for (auto &st : stmts.a) {
        const std::string &op = st.at("op").as_str();
        const std::string id = st.str_or("id", "");
        std::vector<WiringPortRef> ins;
        if (auto *in = st.get("ins")) for (auto &r : in->a) ins.push_back(resolve_ref(sc, r));
        WiringPortRef out;
        if (op == "src") out = wire_src(sc, st);
        else if (op == "push_src") out = wire_push_src(sc, st);
        else if (op == "node") out = wire_node(sc, st, std::move(ins));
        else if (op == "snode") out = wire_snode(sc, st, std::move(ins));
        else if (op == "op") {
            std::vector<WiringArg> args;
            for (auto &a : st.at("args").a) {
                std::string name = a.str_or("name", "");
                if (auto *t = a.get("ts")) args.push_back(ts_arg(resolve_ref(sc, *t), name));
                else if (auto *fo = a.get("fn_op")) {
                    // a library operator itself as the function value (fn<stdlib::add_>()): the reduce then takes its lifted-kernel path
                    const std::string &on = fo->as_str();
                    WiredFn wf = on == "add_" ? fn<stdlib::add_>() : on == "max_" ? fn<stdlib::max_>() : on == "min_" ? fn<stdlib::min_>()
                                 : on == "mul_" ? fn<stdlib::mul_>() : throw std::runtime_error("harness: fn_op " + on + " not supported");
                    args.push_back(sc_arg(Value{wf}, name));
                }
                else if (auto *f = a.get("fn")) args.push_back(sc_arg(Value{make_wired_fn(*sc.prog, f->as_str())}, name));
                else if (auto *cs = a.get("cases")) {
                    stdlib::SwitchCases cases;
                    const auto *kt = parse_scalar(a.str_or("key_t", "int"));
                    for (auto &c : cs->a) cases.cases.push_back(stdlib::SwitchCase{value_from_json(kt, c.a.at(0)), make_wired_fn(*sc.prog, c.a.at(1).as_str())});
                    if (a.has("default")) cases.default_branch = make_wired_fn(*sc.prog, a.at("default").as_str());
                    cases.reload_on_ticked = a.bool_or("reload", false);
                    args.push_back(sc_arg(Value{cases}, name));
                } else if (a.get("sc")) args.push_back(sc_arg(value_from_json(parse_scalar(a.str_or("t", "int")), a.at("sc")), name));
                else throw std::runtime_error("harness: bad op arg");
            }
            std::optional<bool> has_out;
            if (st.has("has_out")) has_out = st.at("has_out").as_bool();
            const TSValueTypeMetaData *exp = st.has("out") ? parse_ts(st.at("out").as_str()) : nullptr;
            Scope *saved = g_parent_scope;
            g_parent_scope = &sc;  // function-value bodies wired during this call see this scope as their parent
            struct Restore { Scope *s; ~Restore() { g_parent_scope = s; } } restore{saved};
            ResolvedOperatorCall r = OperatorRegistry::instance().resolve(st.at("name").as_str(), std::span<const WiringArg>{args.data(), args.size()}, has_out, exp, {}, w.operator_state(), &w);
            OperatorWireResult res = r.impl->wire(w, r.map, r.args, r.kwargs);
            out = res.output.erased();
        } else if (op == "fb") {
            const auto *schema = parse_ts(st.at("schema").as_str());
            const bool has_init = st.has("init");
            Value init;
            if (has_init) init = value_from_json(schema->delta_value_schema, st.at("init"));
            NodeBuilder b = make_feedback_source_node(*schema, has_init);
            b.label(sc.prefix + id);
            out = w.add_unique_node(std::type_index(typeid(DefFbSrc)), std::move(b), std::span<const WiringPortRef>{}, std::move(init));
        } else if (op == "fb_bind") {
            WiringPortRef fb = resolve_ref(sc, st.at("fb"));
            WiringPortRef src = resolve_ref(sc, st.at("src"));
            std::array<WiringPortRef, 2> sources{src, fb};
            NodeBuilder b = make_feedback_sink_node(*fb.schema);
            b.label(sc.prefix + (id.empty() ? std::string{"fbsink"} : id));
            b.input_endpoint(graph_wiring_detail::input_endpoint_for_sources(b.type().schema()->input_schema, std::span<const WiringPortRef>{sources.data(), sources.size()}));
            (void)w.add_node(std::type_index(typeid(DefFbSink)), std::move(b), std::span<const WiringPortRef>{sources.data(), sources.size()}, Value{});
            continue;
        } else if (op == "delayed") {
            auto d = std::make_shared<ErasedDelayedBindingWiringPort>(w, parse_ts(st.at("schema").as_str()));
            sc.delayed[id] = d;
            out = d->port();
        } else if (op == "bind") {
            auto it = sc.delayed.find(st.at("d").as_str());
            if (it == sc.delayed.end()) throw std::runtime_error("harness: unknown delayed binding");
            it->second->bind(resolve_ref(sc, st.at("src")));
            continue;
        } else if (op == "nested" || op == "inline") {
            WiredFn fn = make_wired_fn(*sc.prog, st.at("sub").as_str());
            Scope *saved = g_parent_scope;
            g_parent_scope = &sc;
            struct Restore { Scope *s; ~Restore() { g_parent_scope = s; } } restore{saved};
            if (op == "inline") out = fn.wire(w, std::span<const WiringPortRef>{ins.data(), ins.size()});
            else {
                std::optional<std::vector<std::size_t>> active;
                if (auto *a = st.get("active")) { active.emplace(); for (auto &x : a->a) active->push_back((std::size_t)x.as_int()); }
                out = erased_nested(w, fn, std::move(ins), sc.prefix + id, std::move(active));
            }
        } else if (op == "errcap") {
            WiringPortRef of = resolve_ref(sc, st.at("of"));
            ErrorCaptureOptions eco;
            eco.trace_back_depth = (std::size_t)st.int_or("depth", 1);
            eco.capture_values = st.bool_or("values", false);
            const TSValueTypeMetaData *err_schema = w.activate_error_capture(of.peered_node(), node_error_ts_meta(), eco);
            out = WiringPortRef::peered_source(of.peered_node(), {}, err_schema, GraphEdgeSourceKind::ErrorOutput);
        } else if (op == "struct") {
            out = WiringPortRef::structural_source(parse_ts(st.at("schema").as_str()), std::move(ins));
        } else if (op == "mesh_ref") {
            // mesh_(f)[key] inside the function being meshed: exactly what stdlib::mesh_ref<T>(w, key) does - a never-ticking
            // placeholder of the element type that the mesh_subscribe node re-binds to the sibling instance's output
            WiringPortRef key = resolve_ref(sc, st.at("key"));
            const TSValueTypeMetaData *elem = parse_ts(st.at("schema").as_str());
            ResolvedOperatorCall r = OperatorRegistry::instance().resolve("nothing", std::span<const WiringArg>{}, true, elem, {}, w.operator_state(), &w);
            WiringPortRef placeholder = r.impl->wire(w, r.map, r.args, r.kwargs).output.erased();
            out = stdlib::higher_order_impl_detail::mesh_ref_erased(w, key, placeholder);
        } else if (op == "alias") {
            out = resolve_ref(sc, st.at("of"));
        } else if (op == "rankdep") {
            w.add_rank_dependency(resolve_ref(sc, st.at("node")).peered_node(), resolve_ref(sc, st.at("on")).peered_node());
            continue;
        } else if (op == "rr_config") {
            record_replay::set_config(w.global_state(), record_replay::RecordReplayConfig{.backend = std::string{record_replay::TESTING}});
            continue;
        } else throw std::runtime_error("harness: unknown statement op " + op);
        if (!id.empty()) sc.ports[id] = out;
    }
}

}  // namespace hv
