// "resolve": register a generated overload family (several registration orders, fresh operator name each) and resolve
// a list of calls; report winner / error class / bindings / output schema.  No oracle logic here.
#include "hv.h"

#include <hgraph/types/type_pattern.h>

namespace hv {
namespace {
ScalarPattern sp_of(const JV &j) {
    if (j.has("c")) return ScalarPattern::concrete(parse_scalar(j.at("c").as_str()));
    std::vector<const ValueTypeMetaData *> cons;
    if (auto *c = j.get("cons")) for (auto &x : c->a) cons.push_back(parse_scalar(x.as_str()));
    return ScalarPattern::var(j.at("v").as_str(), std::move(cons));
}
TypePattern tp_of(const JV &j) {
    const std::string &k = j.at("k").as_str();
    if (k == "c") return TypePattern::concrete(parse_ts(j.at("s").as_str()));
    if (k == "var") return TypePattern::var(j.at("n").as_str());
    if (k == "ts") return TypePattern::ts(sp_of(j.at("e")));
    if (k == "tss") return TypePattern::tss(sp_of(j.at("e")));
    if (k == "tsd") return TypePattern::tsd(sp_of(j.at("key")), tp_of(j.at("v")));
    if (k == "tsl") { if (j.has("nv")) return TypePattern::tsl_var(tp_of(j.at("e")), j.at("nv").as_str()); return TypePattern::tsl(tp_of(j.at("e")), (std::size_t)j.at("n").as_int()); }
    if (k == "tsb") { std::vector<std::string> names; std::vector<TypePattern> ch; for (auto &f : j.at("f").a) { names.push_back(f.a.at(0).as_str()); ch.push_back(tp_of(f.a.at(1))); } return TypePattern::tsb(std::move(names), std::move(ch)); }
    if (k == "ref") return TypePattern::ref(tp_of(j.at("e")));
    if (k == "signal") return TypePattern::signal();
    if (k == "tsw_any") return TypePattern::tsw_any(sp_of(j.at("e")));
    throw std::runtime_error("harness: bad pattern kind " + k);
}
}  // namespace

std::string handle_resolve(const JV &req) {
    auto &R = OperatorRegistry::instance();
    std::vector<OperatorImpl> fam;
    for (auto &c : req.at("family").a) {
        OperatorImpl impl;
        impl.label = c.at("label").as_str();
        impl.has_output = true;
        impl.output = tp_of(c.at("out"));
        int i = 0;
        for (auto &p : c.at("params").a) {
            ParamPattern pp;
            pp.name = "p" + std::to_string(i++);
            if (p.at("k").as_str() == "scalar") { pp.kind = ParamPattern::Kind::Scalar; pp.scalar = sp_of(p.at("e")); }
            else { pp.kind = ParamPattern::Kind::Input; pp.ts = tp_of(p); }
            impl.params.push_back(pp);
        }
        impl.variadic = c.bool_or("variadic", false);
        impl.rank = operator_dispatch_detail::operator_rank(impl.params);
        fam.push_back(std::move(impl));
    }
    std::string out = "{\"ok\":true,\"ranks\":[";
    for (std::size_t i = 0; i < fam.size(); ++i) { if (i) out += ','; out += std::to_string(fam[i].rank); }
    out += "],\"results\":[";
    bool first_o = true;
    for (auto &order : req.at("orders").a) {
        const std::string name = "hv_op_" + std::to_string(next_uid());
        for (auto &ix : order.a) { OperatorImpl impl = fam.at((std::size_t)ix.as_int()); impl.name = name; R.register_overload(std::move(impl)); }
        if (!first_o) out += ',';
        first_o = false;
        out += '[';
        bool first_c = true;
        for (auto &call : req.at("calls").a) {
            std::vector<WiringArg> args;
            for (auto &s : call.a) {
                WiringArg a;
                const std::string &str = s.as_str();
                if (str.rfind("SC[", 0) == 0) {     // a scalar argument of the named type
                    const std::string t = str.substr(3, str.size() - 4);
                    a.kind = WiringArg::Kind::Scalar;
                    a.scalar_value = t == "int" ? Value{Int{1}} : t == "bool" ? Value{Bool{true}} : Value{Str{"a"}};
                    a.scalar_meta = a.scalar_value.schema();
                } else { a.kind = WiringArg::Kind::TimeSeries; a.port = WiringPortRef::null_source(parse_ts(str)); }
                args.push_back(a);
            }
            if (!first_c) out += ',';
            first_c = false;
            try {
                auto r = R.resolve(name, std::span<const WiringArg>{args.data(), args.size()}, true);
                out += "{\"win\":"; jstr(out, r.impl->label);
                out += ",\"out\":";
                try { const TSValueTypeMetaData *o = ts_pattern_resolve(r.impl->output, r.map); jstr(out, ts_name(o)); } catch (const std::exception &e) { out += "{\"exc\":" + jq(e.what()) + "}"; }
                out += ",\"ts_vars\":{";
                { std::map<std::string, std::string> m; for (auto &kv : r.map.ts_vars) m[kv.first] = ts_name(kv.second); bool f = true; for (auto &kv : m) { if (!f) out += ','; f = false; jstr(out, kv.first); out += ':'; jstr(out, kv.second); } }
                out += "},\"scalar_vars\":{";
                { std::map<std::string, std::string> m; for (auto &kv : r.map.scalar_vars) m[kv.first] = std::string{kv.second->name()}; bool f = true; for (auto &kv : m) { if (!f) out += ','; f = false; jstr(out, kv.first); out += ':'; jstr(out, kv.second); } }
                out += "},\"size_vars\":{";
                { std::map<std::string, std::size_t> m(r.map.size_vars.begin(), r.map.size_vars.end()); bool f = true; for (auto &kv : m) { if (!f) out += ','; f = false; jstr(out, kv.first); out += ':' + std::to_string(kv.second); } }
                out += "}}";
            } catch (const OperatorResolutionError &e) {
                std::string m = e.what();
                const char *cls = m.rfind("no matching overload", 0) == 0 ? "nomatch" : m.rfind("ambiguous overloads", 0) == 0 ? "ambiguous" : "other";
                out += "{\"win\":null,\"err\":\""; out += cls; out += "\",\"msg\":"; jstr(out, m.substr(0, 400)); out += "}";
            } catch (const std::exception &e) {
                out += "{\"win\":null,\"err\":\"exception\",\"msg\":"; jstr(out, std::string{e.what()}.substr(0, 400)); out += "}";
            }
        }
        out += ']';
    }
    out += "]}";
    return out;
}
}  // namespace hv
